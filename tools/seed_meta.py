#!/usr/bin/env python3
"""usage: tools/seed_meta.py <id> <PROP> <round> "<change>" "<needs to manifest>" ["<note>"]
Writes seeded/<id>/meta.json from seeded/<id>/eval.json (written by tools/seed_eval.sh)."""
import json
import sys
from pathlib import Path

sid, prop, rnd, change, needs = sys.argv[1:6]
note = sys.argv[6] if len(sys.argv) > 6 else None
d = Path(__file__).resolve().parent.parent / "seeded" / sid
ev = json.loads((d / "eval.json").read_text())
meta = {
    "id": sid,
    "property": prop,
    "round": int(rnd),
    "origin": "fresh sub-agent given only the property text, a list of mechanisms already "
    f"tried by others, and its own scratch worktree (/tmp/seed/{sid}); nothing from /verif",
    "change": change,
    "needs_to_manifest": needs,
    "confirmed_by_me": {
        "existing_suite_with_change": ev["suite"],
        "demo_exit_with_change": ev["demo_exit_with"],
        "demo_exit_without_change": ev["demo_exit_without"],
        "how": f"tools/seed_eval.sh {sid} {prop}",
    },
    "check_result": {
        "check": ev["check"],
        "tier": "quick",
        "exit": ev["check_exit"],
        "wall_s": ev["check_wall_s"],
    },
}
if note:
    meta["note"] = note
(d / "meta.json").write_text(json.dumps(meta, indent=1) + "\n")
print(d / "meta.json")
