#!/usr/bin/env python3
"""Regenerates /verif/MANIFEST.json from the table below (single source of truth)."""
import json
import os
import sys

HERE = os.path.dirname(os.path.dirname(os.path.abspath(__file__)))

TECH = "deterministic simulation with fault injection (seeded search over schedules/faults; real zorg code in forked simulated processes; reference-model oracles)"

CHECKS = {
    "C05": {
        "level": "exploration",
        "text": "Seeded histories: db create on generated directories, then repeated create/reindex/reindex <paths>/no-op editor sessions/day changes (incl. the clock being set back and midnight striking inside a command), every step a real forked zorg process under a simulated clock. Oracles after the first create: every changed line explained as a ZID insertion, index == recompiled files field by field, ZIDs unique; after every later step: no file byte and no index entry changed. Exploration is the right level: the input/history space is unbounded and only sampled.",
        "ref": "DESIGN.md section 5 (C05)",
        "note": "Trusted: zorg's compiler as a reader of pages (that is C01/C02), SQLite, the ANTLR runtime. Known findings are listed in known_findings.json.",
        "technique": TECH + "; fault-free index-history profile with restarts, day changes and dirent-order variation",
    },
    "C06": {
        "level": "exploration",
        "text": "Seeded edit histories (simulated user: edit/add/delete/move notes, add/delete/rename pages, header and section edits, zorg's own file rename / note move, edit sessions through the editor stub) interleaved with db reindex (with and without paths), day changes, clock faults (midnight inside a command, clock set back) and pages that leave and come back unchanged, ending with a plain reindex; reference model = db create on a copy of the final files; oracle = canonical index dumps equal + a fixed 21-query panel and 5 seeded queries answer identically.",
        "ref": "DESIGN.md section 5 (C06)",
        "note": "Trusted: db create as the reference (its own agreement with the files is C05), SQLite, the query executor as a reader.",
        "technique": TECH + "; refinement of incremental reindex against a from-scratch rebuild reference over generated histories",
    },
    "C07": {
        "level": "exploration",
        "text": "The complete successor chain of one date is driven through the public allocator until the explicit out-of-IDs error, sharded by state injection into next_ids.json with restarts at every roll-over (exhaustive for the chain); plus seeded interleaved histories over several dates with restarts between any two allocations and allocations made by real db create / reindex. Every ZID is checked for uniqueness, form, alphabet, single-token lexing by both lexers and recognition by the compiler.",
        "ref": "DESIGN.md section 5 (C07)",
        "note": "The order of suffixes is not constrained. Trusted: the ANTLR runtime.",
        "technique": TECH + "; restart-interleaved allocation histories plus one exhaustive chain run",
    },
    "C08": {
        "level": "exploration",
        "text": "Storage-damage profile: an indexed valid directory whose pages are damaged between zorg processes (truncate, substitute, drop/duplicate/swap lines, garbage, empty, random bytes), followed by compile / db reindex / db create [-f] / repair steps. Oracle: compile never raises or hangs; has_errors == (an independent run of the generated parser reported a syntax error); broken pages are refused unless whitelisted and never indexed with has_errors = 0; clean pages are indexed in full.",
        "ref": "DESIGN.md section 5 (C08)",
        "note": "For the totality clause this is fuzzing of stored bytes in effect; the protocol clauses are history properties. Trusted: ANTLR runtime as ground truth for 'syntax error'.",
        "technique": TECH + "; stored-byte damage between simulated processes with protocol oracle over create/reindex/whitelist history",
    },
    "C10": {
        "level": "exploration",
        "text": "ops-conformance profile: worlds brought to agreement by real create/reindex (so pre-states are reachable states), then note move steps checked operation by operation against a line-list reference model (source minus exactly the note's lines, destination plus the note once), recompilation of both pages, ZID multiset conservation and metadata superset for the moved note.",
        "ref": "DESIGN.md section 5 (C10)",
        "note": "Weakest fit for the technique: no fault term in the statement; fault injection contributes nothing to this oracle.",
        "technique": TECH + "; reference-model conformance of a multi-file durable transition over reachable pre-states",
    },
    "C11": {
        "level": "exploration",
        "text": "index-history profile with day changes as the essential fault: rounds of user edits and reindex (with/without paths, or edit sessions) over several simulated days (forwards, backwards, and with midnight striking inside a reindex), each followed by an immediate second reindex. An independent stamp model (previous index rows x recompiled files x hash map) predicts exactly which notes must be stamped; oracle checks both directions of the iff, the exact first-line rewrite, byte-identity of everything else, file/index agreement and quiescence of the second reindex.",
        "ref": "DESIGN.md section 5 (C11)",
        "note": "Trusted: the compiler as reader; the hash map file as the definition of 'processed page'.",
        "technique": TECH + "; multi-day clock histories against an independent stamp-set model",
    },
    "C13": {
        "level": "fault_enumeration",
        "text": "Crash sweep: for each sampled (world, command) the golden run's external effects (file writes, creates, unlinks, renames, mkdirs, database commits) are enumerated by a syscall-level tap, and EVERY boundary is decided by killing a real forked zorg process there (os._exit, no unwinding) and re-running the command; torn-empty and torn-prefix variants of file writes (all of them in thorough, two in half of the quick worlds), as additional variants user edits between kill and rerun at a quarter of the crash points and 'the user undoes the edits made since the last indexing' (all pages or a seeded half) at every crash point of about half of the worlds (all explicit-path worlds), and in thorough a second kill during the rerun. Oracle after the rerun: completes without error, index == recompiled files, every note has its ZID in the file, no ZID lost or duplicated, no user text lost, a further reindex is a no-op, and (when nothing but the kill happened) the pages equal those of the uninterrupted run up to the suffix of freshly allocated ZIDs.",
        "ref": "DESIGN.md section 5 (C13)",
        "note": "Within a sampled world the crash points are enumerated completely; worlds and commands are sampled. SQLite's atomic commit is trusted.",
        "technique": TECH + "; exhaustive crash-point enumeration per sampled world with torn-write variants",
    },
    "C14": {
        "level": "exploration",
        "text": "ops-conformance profile: generated directories (sub-directories, .zot templates, .zoq query pages, link texts that are prefixes/suffixes/path-extensions/anchors of each other), chains of file rename steps interleaved with reindex and edits, each checked byte for byte against an independent link-rewriting reference model.",
        "ref": "DESIGN.md section 5 (C14)",
        "note": "Weak fit for the technique: no fault term in the statement.",
        "technique": TECH + "; reference-model conformance of chained renames",
    },
    "C16": {
        "level": "exploration",
        "text": "ops-conformance profile: generated ordered pattern maps and templates (incl. clock-reading templates), histories of template init [-f] [-t] / edit / action open / note move to a missing page / user edits / day changes; reference model decides which template, which variables and whether to write; oracle: existing files byte-identical unless -f, exact rendering for missing+matching, nothing for no match, second init (any entry point, any later day) changes nothing.",
        "ref": "DESIGN.md section 5 (C16)",
        "note": "The Jinja rendering itself is taken from the real ZorgTemplateManager (trusted).",
        "technique": TECH + "; reference-model conformance over multi-entry-point histories with day changes",
    },
}

NA = {
    "C01": "compiling one page is a read-only pure function of that file's bytes: no schedule, restart, fault or history in the statement; generating pages and comparing fields would be grammar-based property testing, not simulation",
    "C02": "metadata scoping is a pure function of one page's bytes; exhaustive skeleton enumeration is bounded input enumeration, not a search over schedules or faults",
    "C03": "the result of a WHERE filter is a pure function of (index snapshot, filter, current date); how the snapshot came to be is C05/C06, which are claimed",
    "C04": "query compilation is a pure function of (query text, current date); the date is a parameter read once, not a process that evolves",
    "C09": "rendering is a pure function of (index snapshot, query): partition and ordering laws over one result set, no state transition",
    "C12": "Note.to_string followed by compilation is a pure round trip on one note; no schedule, clock, fault or interleaving",
    "C15": "saved-query expansion is a read-only pure function of (saved-query files, query text); nothing evolves",
    "C17": "action open output is a pure function of (line text, index snapshot, option index); its one side effect (template creation) is exercised under C16",
    "C18": "file-group expansion is a pure function of (group map, argument list, current date)",
}


def main() -> None:
    implemented = [
        pid for pid in sorted(CHECKS) if os.path.exists(os.path.join(HERE, "zsim", "props", pid.lower() + ".py"))
    ]
    checks = []
    for pid in implemented:
        c = CHECKS[pid]
        checks.append(
            {
                "property_id": pid,
                "quick_cmd": f"./check {pid} --tier quick",
                "thorough_cmd": f"./check {pid} --tier thorough",
                "evidence_file": f"evidence/{pid}.json",
                "replay_cmd_template": f"./check {pid} --replay {{path}}",
                "engine": "zsim",
                "level_claimed": {"category": c["level"], "text": c["text"], "design_ref": c["ref"]},
                "level_note": c["note"],
                "technique": c["technique"],
            }
        )
    na = [{"property_id": k, "reason": v} for k, v in sorted(NA.items())]
    for pid in sorted(CHECKS):
        if pid not in implemented:
            na.append({"property_id": pid, "reason": "check under construction in this session (claimed in DESIGN.md; not yet registered)"})
    man = {
        "version": 1,
        "setup_cmd": "./check selftest",
        "hooks": {
            "guard": "ZORG_VERIF",
            "enable": "no source hooks are needed: every seam (clock, effect tap, editor, dirent order) is applied from /verif by rebinding module attributes inside the simulated processes; zorg is imported from /repo/src (editable install), so checks always run the current working tree",
            "baseline_off_cmd": "cd /repo && /venv/bin/python -m pytest -ra -q -p no:cacheprovider --timeout=900 --continue-on-collection-errors",
            "source_commits": [],
            "add_only": True,
        },
        "engines": [
            {
                "name": "zsim",
                "path": "zsim/",
                "serves_properties": implemented,
                "kind_free_text": "deterministic single-machine simulator: forked real zorg processes, simulated clock/user/editor, syscall-level effect tap with crash and torn-write injection, seeded generator, delta-debugging minimiser, literal replay files",
            }
        ],
        "checks": checks,
        "not_applicable": sorted(na, key=lambda d: d["property_id"]),
        "notes": "Exit codes of ./check: 0 held (KNOWN-FINDING lines possible), 1 unlisted violation (VIOLATION line + replay file under replays/), 2 harness error (HARNESS-ERROR line; never a verdict). VERIF_SEED and VERIF_TIER are honoured. known_findings.json lists recorded genuine defects and fixed ones.",
    }
    with open(os.path.join(HERE, "MANIFEST.json"), "w") as f:
        json.dump(man, f, indent=1)
        f.write("\n")
    print("MANIFEST.json written; checks:", implemented)


if __name__ == "__main__":
    main()
