#!/bin/bash
# Re-applies every negative control (seeded/benign/<id>) to a scratch worktree of /repo's
# CURRENT HEAD and runs the quick tier of the checks it names; every check must stay silent.
# A patch that no longer applies is reported and skipped (stored patches are never rewritten).
# usage: tools/benign_recheck.sh [ids...]
cd "$(dirname "$0")/.."
ids=${@:-$(ls seeded/benign)}
wt=/tmp/seed/bencheck
mkdir -p /tmp/seed
git -C /repo worktree remove --force $wt 2>/dev/null
git -C /repo worktree add -q --detach $wt HEAD || exit 2
for id in $ids; do
  git -C $wt reset -q --hard HEAD; git -C $wt clean -qfd
  if ! git -C $wt apply /verif/seeded/benign/$id/patch.diff 2>/dev/null; then
    if ! (cd $wt && git apply --3way /verif/seeded/benign/$id/patch.diff >/dev/null 2>&1) || grep -rq '^<<<<<<<' $wt/src; then
      echo "$id: PATCH DOES NOT APPLY to $(git -C /repo rev-parse --short HEAD)"; continue
    fi
  fi
  suite=$(cd $wt && PYTHONPATH=$wt/src timeout 900 /venv/bin/python -m pytest -q -x -p no:cacheprovider --timeout=900 2>&1 | tail -1)
  props=$(python3 -c "import json;print(' '.join(json.load(open('seeded/benign/$id/meta.json'))['properties']))")
  for p in $props; do
    ZORG_SRC=$wt/src ./check $p --survey --no-selftest > /tmp/seed/bencheck.$id.$p.log 2>&1; rc=$?
    echo "$id $p exit=$rc $(grep -E '^survey:' /tmp/seed/bencheck.$id.$p.log) new=$(grep -c 'SURVEY NEW' /tmp/seed/bencheck.$id.$p.log) suite: ${suite%%,*}"
  done
done
git -C /repo worktree remove --force $wt
