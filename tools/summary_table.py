#!/usr/bin/env python3
"""Prints a markdown table of what the evidence files under evidence/ (or the directory given) report."""
import glob
import json
import os
import sys

d = sys.argv[1] if len(sys.argv) > 1 else os.path.join(os.path.dirname(os.path.dirname(os.path.abspath(__file__))), "evidence")
print("| property | tier | runs | wall s | runs/h | simulated processes | simulated days | faults fired | distinct states | known-finding hits | violations |")
print("|---|---|---|---|---|---|---|---|---|---|---|")
for f in sorted(glob.glob(os.path.join(d, "C*.json"))):
    e = json.load(open(f))
    c = e["coverage"]
    faults = ", ".join(f"{k} {v}" for k, v in sorted(c.get("fault_kinds_fired", {}).items())) or "-"
    print(
        f"| {e['property_id']} | {e['tier']} | {c.get('runs_completed')}/{c.get('runs_planned')} | {e.get('wall_s')} | {c.get('runs_per_hour')} | "
        f"{c.get('simulated_processes')} | {c.get('simulated_days_covered')} | {faults} | {c.get('distinct_world_states')} | "
        f"{sum(c.get('known_finding_hits', {}).values()) if isinstance(c.get('known_finding_hits'), dict) else c.get('known_finding_hits')} | {e.get('violations')} |"
    )
