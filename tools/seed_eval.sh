#!/bin/bash
# usage: tools/seed_eval.sh <worktree-name under /tmp/seed> <PROP> [extra check args]
# Confirms a sub-agent's seeded change (suite green, demo fails with / passes without),
# stores it under seeded/<name>/ and runs the matching check against it via ZORG_SRC.
name=$1; prop=$2; shift 2
wt=/tmp/seed/$name
out=/verif/seeded/$name
mkdir -p $out
git -C $wt diff -- src > $out/patch.diff
cp $wt/demo/demo.py $out/demo.py 2>/dev/null
[ -s $out/patch.diff ] || { echo "EMPTY PATCH"; exit 2; }
echo "--- patch: $(grep -c '^[-+][^-+]' $out/patch.diff) changed lines in $(grep -c '^diff' $out/patch.diff) file(s)"
cd $wt
suite=$(PYTHONPATH=$wt/src timeout 900 /venv/bin/python -m pytest -q -x -p no:cacheprovider --timeout=900 2>&1 | tail -1)
echo "--- suite with change: $suite"
PYTHONPATH=$wt/src timeout 600 /venv/bin/python demo/demo.py > $out/demo_with.log 2>&1; dw=$?
git apply -R $out/patch.diff
PYTHONPATH=$wt/src timeout 600 /venv/bin/python demo/demo.py > $out/demo_without.log 2>&1; dwo=$?
git apply $out/patch.diff
echo "--- demo exit with change: $dw   without: $dwo"
cd /verif
t0=$(date +%s)
ZORG_SRC=$wt/src ./check $prop --no-selftest "$@" > $out/check.log 2>&1; rc=$?
t1=$(date +%s)
echo "--- check $prop exit=$rc in $((t1-t0))s"
grep -E "^violation signature|^VIOLATION|^HARNESS|^done" $out/check.log | head -8
echo "{\"suite\": \"$suite\", \"demo_exit_with\": $dw, \"demo_exit_without\": $dwo, \"check\": \"$prop\", \"check_exit\": $rc, \"check_wall_s\": $((t1-t0))}" > $out/eval.json
