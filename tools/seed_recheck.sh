#!/bin/bash
# Re-applies every seeded change to a scratch worktree of /repo's CURRENT HEAD, refreshes
# seeded/<id>/patch.diff so that `git -C /repo apply` works on the final tree, and re-runs
# suite + demo + check.  usage: tools/seed_recheck.sh [ids...]
cd "$(dirname "$0")/.."
ids=${@:-$(ls seeded | grep -E '^c[0-9]+[a-z]$')}
wt=/tmp/seed/recheck
mkdir -p /tmp/seed
git -C /repo worktree remove --force $wt 2>/dev/null
git -C /repo worktree add -q --detach $wt HEAD || exit 2
for id in $ids; do
  prop=$(python3 -c "import json;m=json.load(open('seeded/$id/meta.json'));print(m.get('check_result',{}).get('check') or m['property'])")
  git -C $wt reset -q --hard HEAD; git -C $wt clean -qfd
  if ! git -C $wt apply /verif/seeded/$id/patch.diff 2>/dev/null; then
    # nothing is touched when a patch no longer applies: it has to be rebased by hand
    echo "$id: PATCH DOES NOT APPLY to $(git -C /repo rev-parse --short HEAD) -- NEEDS MANUAL REBASE"; continue
  fi
  git -C $wt diff -- src > seeded/$id/patch.diff
  mkdir -p $wt/demo && cp seeded/$id/demo.py $wt/demo/demo.py
  ZSIM_NO_MINIMISE=1 tools/seed_eval.sh recheck $prop > /tmp/seed/recheck.$id.log 2>&1
  # seed_eval stored its results under seeded/recheck: move them to the right place
  cp seeded/recheck/eval.json seeded/$id/eval.json; cp seeded/recheck/check.log seeded/$id/check.log
  cp seeded/recheck/demo_with.log seeded/$id/demo_with.log; cp seeded/recheck/demo_without.log seeded/$id/demo_without.log
  python3 - "$id" <<'PY'
import json,sys
i=sys.argv[1]; e=json.load(open(f'seeded/{i}/eval.json')); m=json.load(open(f'seeded/{i}/meta.json'))
m['confirmed_by_me'].update({"existing_suite_with_change":e["suite"],"demo_exit_with_change":e["demo_exit_with"],"demo_exit_without_change":e["demo_exit_without"]})
m['check_result']={"check":e["check"],"tier":"quick","exit":e["check_exit"],"wall_s":e["check_wall_s"]}
json.dump(m,open(f'seeded/{i}/meta.json','w'),indent=1)
print(i, e["check"], "check_exit", e["check_exit"], "suite:", e["suite"].split(',')[0], "demo", e["demo_exit_with"], e["demo_exit_without"])
PY
done
rm -rf seeded/recheck
git -C /repo worktree remove --force $wt
