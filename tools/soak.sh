#!/bin/bash
# usage: tools/soak.sh <first_seed> <n_seeds> [props...]   -- survey runs under many VERIF_SEEDs; prints NEW signatures only
cd "$(dirname "$0")/.."
first=$1; n=$2; shift 2
props=${@:-C05 C06 C07 C08 C10 C11 C13 C14 C16}
for ((s=first; s<first+n; s++)); do
  for p in $props; do
    out=$(./check $p --seed $s --survey 2>&1)
    echo "$out" | grep -E "SURVEY NEW|HARNESS" -A1 | sed "s/^/[$p seed=$s] /"
    echo "$out" | grep -E "^survey:" | sed "s/^/[$p seed=$s] /"
  done
done
