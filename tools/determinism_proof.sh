#!/bin/bash
# Large determinism proof: for every claimed property, N runs are executed
#   (a) by the 16-worker pool under PYTHONHASHSEED=0,
#   (b) again by the pool with 5 workers,
#   (c) one after the other in ONE fresh interpreter under PYTHONHASHSEED=12345,
# and the per-run event-log digests must be identical.
# usage: tools/determinism_proof.sh [N=120] [props...]
cd "$(dirname "$0")/.."
N=${1:-120}; shift
props=${@:-C05 C06 C07 C08 C10 C11 C13 C14 C16}
tmp=$(mktemp -d /dev/shm/zdet.XXXX)
export ZSIM_WALL_CAP=100000
rc=0
for p in $props; do
  n=$N; [ $p = C13 ] && n=$((N/6)); [ $p = C07 ] && n=$((N+32))
  ZSIM_DUMP_DIGESTS=$tmp/$p.a ./check $p --runs $n --survey >/dev/null 2>&1
  ZSIM_DUMP_DIGESTS=$tmp/$p.b ./check $p --runs $n --survey --workers 5 >/dev/null 2>&1
  idx=$(seq -s, 0 $((n-1)))
  PYTHONHASHSEED=12345 ZSIM_NO_REEXEC=1 ./check $p --digests $idx 2>/dev/null | grep ^DIGEST | cut -d' ' -f2,3 > $tmp/$p.c &
  wait
  if cmp -s $tmp/$p.a $tmp/$p.b && cmp -s $tmp/$p.a $tmp/$p.c; then
    echo "$p: $n runs x 3 executions: digests identical"
  else
    echo "$p: DIGEST MISMATCH"; diff $tmp/$p.a $tmp/$p.b | head -5; diff $tmp/$p.a $tmp/$p.c | head -5; rc=1
  fi
done
rm -rf $tmp
exit $rc
