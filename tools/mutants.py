#!/venv/bin/python
"""Sensitivity harness: hand-made mutants of zorg applied in a scratch worktree
(outside /repo and /verif) and run against the quick tier of the matching check
through the ZORG_SRC testing aid.  Writes seeded/mutants_report.json.

usage: tools/mutants.py [--tests] [--only NAME ...] [--tier quick|thorough]
"""
from __future__ import annotations

import argparse
import json
import os
import re
import subprocess
import sys
import time

HERE = os.path.dirname(os.path.dirname(os.path.abspath(__file__)))
WT = os.environ.get("MUT_WT", "/tmp/seed/mut")

H = "src/zorg/service/handlers.py"
R = "src/zorg/storage/sql/_repo.py"
Z = "src/zorg/storage/sql/_zid_manager.py"
FM = "src/zorg/storage/file/_manager.py"
NU = "src/zorg/service/note_utils.py"
RF = "src/zorg/app/runners/_run_file.py"
T = "src/zorg/service/templates.py"
CM = "src/zorg/shared/common.py"
D = "src/zorg/shared/dates.py"
PG = "src/zorg/domain/models/_page.py"
FC = "src/zorg/service/compiler/_file_compiler.py"

MUTANTS = [
    # ---------------------------------------------------------------- C05
    ("m05_drop_priority_on_writeback", "C05", H, '    return f"{spaces}{symbol} {priority}"\n', '    return f"{spaces}{symbol} "\n'),
    ("m05_keep_long_date_in_index_body", "C05", R, "            if zdt.is_long_date_spec(words[0]):\n", "            if False and zdt.is_long_date_spec(words[0]):\n"),
    ("m05_index_body_collapses_spaces", "C05", R, '            words = first_line.removesuffix(eol).split(" ")\n', "            words = first_line.removesuffix(eol).split()\n"),
    ("m05_writeback_normalises_crlf", "C05", H, "    zlines = c.read_text_as_is(zo_path).split(\"\\n\")\n", "    zlines = zo_path.read_text().split(\"\\n\")\n"),
    ("m05_zid_after_first_word", "C05", H, "    if not words:\n        return f\"{line_before_zid}{zid}\"\n    return f\"{line_before_zid}{zid} {' '.join(words)}\"\n", "    if not words:\n        return f\"{line_before_zid}{zid}\"\n    return f\"{line_before_zid}{words[0]} {zid} {' '.join(words[1:])}\".rstrip()\n"),
    ("m05_writeback_uses_stale_line_numbers", "C05", H, "        start_idx = note.line_no - 1\n        end_idx = note.line_no + len(note.body.split(\"\\n\")) - 1\n", "        start_idx = note.line_no - 1 + (1 if len(notes_to_update) > 2 and note is notes_to_update[-1] else 0)\n        end_idx = start_idx + len(note.body.split(\"\\n\"))\n"),
    # ---------------------------------------------------------------- C06
    ("m06_skip_remove_of_changed_page", "C06", H, "            old_zorg_page = session.repo.remove_file_by_name(zorg_page_name)\n", "            old_zorg_page = None if hash_.startswith(\"0\") else session.repo.remove_file_by_name(zorg_page_name)\n"),
    ("m06_hash_compare_inverted_for_known_pages", "C06", H, "            or old_file_to_hash[zorg_page_name] != hash_\n", "            or old_file_to_hash[zorg_page_name] == hash_\n"),
    ("m06_deleted_pages_only_if_in_hash_map", "C06", H, "        for zorg_page_name in session.repo.get_file_names():\n            if zorg_page_name not in file_to_hash:\n", "        for zorg_page_name in old_file_to_hash:\n            if zorg_page_name not in file_to_hash:\n"),
    ("m06_writeback_refreshes_all_hashes", "C06", H, "    file_to_hash[c.strip_zdir(zdir, zo_path)] = _hash_file(zo_path)\n", "    file_to_hash = _get_file_hash_map(zdir)\n"),
    ("m06_keep_orphan_tags", "C06", R, "                        if len(tag.notes) == 1:\n", "                        if len(tag.notes) == 0:\n"),
    ("m06_merge_old_hash_map", "C06", H, "    _write_file_hash_to_disk(file_hash_path, file_to_hash)\n    c.atomic_write_text(\n        error_file_whitelist, \"\\n\".join(sorted(error_files))\n    )\n    session.commit()\n\n\ndef reindex_database_after_edit(", "    _write_file_hash_to_disk(file_hash_path, {**old_file_to_hash, **file_to_hash})\n    c.atomic_write_text(\n        error_file_whitelist, \"\\n\".join(sorted(error_files))\n    )\n    session.commit()\n\n\ndef reindex_database_after_edit("),
    # ---------------------------------------------------------------- C07
    ("m07_no_persist", "C07", Z, "        self._write_to_disk(next_id_map)\n", "        if len(next_id_map) > 1:\n            self._write_to_disk(next_id_map)\n"),
    ("m07_do_not_skip_l", "C07", Z, '    "l",\n', ""),
    ("m07_extension_starts_at_00", "C07", Z, '        return "000"\n', '        return "00"\n'),
    ("m07_is_zid_len9_only", "C07", D, "        len(zid) in (9, 10) and", "        len(zid) == 9 and"),
    ("m07_successor_of_Z_is_b", "C07", Z, '            next_ch = "a"\n', '            next_ch = "b"\n'),
    ("m07_prune_older_dates", "C07", Z, "        # pylint: disable=unsupported-assignment-operation\n", "        if date_part not in next_id_map:\n            next_id_map = {k: v for k, v in next_id_map.items() if k > date_part}\n        # pylint: disable=unsupported-assignment-operation\n"),
    # ---------------------------------------------------------------- C08
    ("m08_reindex_accepts_broken_page", "C08", H, "                raise RuntimeError(f\"Zorg file has errors!: {zorg_page.path}\")\n", "                error_files.append(zorg_page_path_str)\n"),
    ("m08_fixed_page_stays_whitelisted", "C08", H, "                error_files.remove(zorg_page_path_str)\n", "                pass\n"),
    ("m08_bullet_scan_unguarded", "C08", FC, "                if not words:\n                    continue\n", ""),
    ("m08_create_force_does_not_flag", "C08", H, "        session.repo.add_file(zorg_page)\n        zorg_pages.append(zorg_page)\n", "        if cmd.update_error_file_whitelist:\n            zorg_page.has_errors = False\n        session.repo.add_file(zorg_page)\n        zorg_pages.append(zorg_page)\n"),
    # ---------------------------------------------------------------- C10
    ("m10_delete_one_line_too_many", "C10", FM, "        end_idx = start_idx + len(note.body.split(\"\\n\"))\n", "        end_idx = start_idx + len(note.body.split(\"\\n\")) + (1 if \"\\n\" in note.body else 0)\n"),
    ("m10_skip_people_tags", "C10", NU, '        ("%", cast_tag_name("people"), note.people),\n', ""),
    ("m10_first_match_delete", "C10", FM, "            if first_line_regex.match(line):\n", "            if f\" {note.zid} \" in line:\n"),
    ("m10_marker_keeps_priority_word", "C10", NU, "    new_note.todo_payload = TodoPayload(status=NoteType(done_type))\n", "    new_note.todo_payload = TodoPayload(status=NoteType(done_type))\n    new_note.body = new_note.body.replace(\"  * \", \"  - \", 1) if done_type == \"~\" else new_note.body\n"),
    # ---------------------------------------------------------------- C11
    ("m11_stamp_even_if_dated_today", "C11", H, "        if note.modify_date != today and note_has_changed:\n", "        if note_has_changed:\n"),
    ("m11_eq_ignores_todo_state", "C11", PG, "            and self.todo_payload == other.todo_payload\n", ""),
    ("m11_stamp_with_create_date", "C11", H, "        get_thing=lambda note: zdt.to_short_date_spec(note.modify_date),\n", "        get_thing=lambda note: zdt.to_short_date_spec(note.create_date),\n"),
    ("m11_old_stamp_not_removed", "C11", H, "        old_modify_date = words.pop(0)\n", "        old_modify_date = words[0]\n"),
    ("m11_stamp_needs_old_stamp_state", "C11", H, "            if zdt.is_short_date_spec(first_word) and rest_of_body.lstrip(\n                \" \"\n            ).startswith(note.zid):\n", "            if old_note is not None and old_note.modify_date != note.create_date:\n"),
    ("m11_three_clock_reads", "C11", H, "            modify_short_date = zdt.to_short_date_spec(today)\n", "            modify_short_date = zdt.to_short_date_spec(dt.date.today())\n"),
    # ---------------------------------------------------------------- C13
    ("m13_page_rewrite_in_place", "C13", H, '    c.atomic_write_text(zo_path, "\\n".join(zlines))\n', '    zo_path.write_text("\\n".join(zlines))\n'),
    ("m13_hash_map_keeps_pending_pages", "C13", H, "    for zorg_page_name in pages_to_write_back:\n        file_to_hash.pop(zorg_page_name, None)\n", ""),
    ("m13_next_ids_in_place", "C13", Z, "        atomic_write_text(\n            self._next_ids_path, json.dumps(dict(next_id_map), indent=4)\n        )\n", "        with self._next_ids_path.open(\"w\") as f:\n            json.dump(dict(next_id_map), f, indent=4)\n"),
    ("m13_first_writeback_records_hash", "C13", H, "        should_record_hash=not event.has_new_notes,\n", "        should_record_hash=True,\n"),
    ("m13_hash_map_written_before_page_commit", "C13", H, "            session.repo.add_file(zorg_page)\n            session.commit()\n            if zorg_page.events:\n", "            session.repo.add_file(zorg_page)\n            _write_file_hash_to_disk(file_hash_path, old_file_to_hash | {zorg_page_name: hash_})\n            session.commit()\n            if zorg_page.events:\n"),
    ("m13_piecemeal_commits_in_remove", "C13", R, "        self._session.flush()\n        self._session.expire_all()\n", "        self._session.commit()\n"),
    ("m13_hashes_of_changed_files_not_forgotten", "C13", H, "    if changed_files & old_file_to_hash.keys():\n", "    if False and changed_files & old_file_to_hash.keys():\n"),
    ("m13_hashes_of_deleted_files_not_forgotten", "C13", H, "        changed_files |= old_file_to_hash.keys() - file_to_hash.keys()\n", "        pass\n"),
    # ---------------------------------------------------------------- C14
    ("m14_anchor_links_not_retargeted", "C14", RF, '        f"[[{src_link_name}#": f"[[{dest_link_name}#",\n', ""),
    ("m14_prefix_replace", "C14", RF, '        f"[[{src_link_name}]": f"[[{dest_link_name}]",\n', '        f"[[{src_link_name}": f"[[{dest_link_name}",\n'),
    ("m14_skip_zoq", "C14", CM, '        zdir.rglob("*.zo"), zdir.rglob("*.zot"), zdir.rglob("*.zoq")\n', '        zdir.rglob("*.zo"), zdir.rglob("*.zot")\n'),
    ("m14_only_top_level_files", "C14", CM, '        zdir.rglob("*.zo"), zdir.rglob("*.zot"), zdir.rglob("*.zoq")\n', '        zdir.rglob("*.zo"), zdir.glob("*.zot"), zdir.rglob("*.zoq")\n'),
    # ---------------------------------------------------------------- C16
    ("m16_no_exists_check", "C16", T, "    if new_path.exists() and not should_overwrite_existing:\n        return\n", "    if new_path.exists() and not should_overwrite_existing and not var_map:\n        return\n"),
    ("m16_last_pattern_wins", "C16", T, "            var_map |= match.groupdict()\n            break\n", "            var_map |= match.groupdict()\n"),
    ("m16_dates_stay_strings", "C16", T, "        c.process_var_map(var_map),\n", "        var_map,\n"),
    ("m16_explicit_template_beats_pattern", "C16", T, "    for pattern, tmpl_path in template_pattern_map.items():\n", "    for pattern, tmpl_path in ([] if template else template_pattern_map.items()):\n"),
]


# mutants that change zorg's internals without violating the property statement
EQUIVALENT = {
    "m06_keep_orphan_tags": "orphan tag rows are never read back: every tag listing is derived from the tags of matching notes, so no query can tell the difference (C06 is about query answers)",
}


def sh(cmd: list[str], **kw) -> subprocess.CompletedProcess:
    return subprocess.run(cmd, capture_output=True, text=True, **kw)


def main() -> int:
    ap = argparse.ArgumentParser()
    ap.add_argument("--tests", action="store_true", help="also run zorg's own test suite against each mutant")
    ap.add_argument("--only", nargs="*")
    ap.add_argument("--tier", default="quick")
    args = ap.parse_args()
    if not os.path.isdir(WT):
        sh(["git", "-C", "/repo", "worktree", "add", "--detach", WT, "HEAD"])
    head = sh(["git", "-C", "/repo", "rev-parse", "HEAD"]).stdout.strip()
    sh(["git", "-C", WT, "checkout", "--detach", head])
    report = []
    for name, pid, path, old, new in MUTANTS:
        if args.only and name not in args.only:
            continue
        sh(["git", "-C", WT, "checkout", "--", "."])
        full = os.path.join(WT, path)
        src = open(full).read()
        if old not in src:
            report.append({"mutant": name, "property": pid, "error": "anchor text not found"})
            print(f"{name:45s} {pid}  ANCHOR NOT FOUND")
            continue
        open(full, "w").write(src.replace(old, new, 1))
        entry = {"mutant": name, "property": pid, "file": path}
        if args.tests:
            t = sh([sys.executable.replace("python3-vt", "python"), "-m", "pytest", "-q", "-x", "-p", "no:cacheprovider", "--timeout=900"], cwd=WT, env=dict(os.environ, PYTHONPATH=os.path.join(WT, "src")))
            entry["suite_passes"] = t.returncode == 0
        t0 = time.time()
        env = dict(os.environ, ZORG_SRC=os.path.join(WT, "src"), ZSIM_NO_MINIMISE="1")
        p = sh([os.path.join(HERE, "check"), pid, "--tier", args.tier, "--no-selftest"], env=env, cwd=HERE)
        entry["exit"] = p.returncode
        entry["wall_s"] = round(time.time() - t0, 1)
        entry["signatures"] = sorted(set(re.findall(r"^violation signature=(\S+)", p.stdout, re.M)))
        entry["caught"] = p.returncode == 1
        if name in EQUIVALENT:
            entry["equivalent_for_the_property"] = EQUIVALENT[name]
        if p.returncode == 2:
            entry["harness"] = p.stdout[-600:]
        report.append(entry)
        print(f"{name:45s} {pid}  exit={p.returncode} {'CAUGHT' if entry['caught'] else 'MISSED'} {entry['wall_s']}s suite={entry.get('suite_passes')} {entry['signatures'][:2]}")
        sys.stdout.flush()
    sh(["git", "-C", WT, "checkout", "--", "."])
    os.makedirs(os.path.join(HERE, "seeded"), exist_ok=True)
    out = os.path.join(HERE, "seeded", f"mutants_report_{args.tier}.json" if not args.only else "/tmp/mutants_partial.json")
    with open(out, "w") as f:
        json.dump({"repo_head": head, "tier": args.tier, "mutants": report}, f, indent=1)
    missed = [r["mutant"] for r in report if not r.get("caught") and not r.get("equivalent_for_the_property")]
    print(f"{len(report) - len(missed)}/{len(report)} caught; missed: {missed}")
    return 0


if __name__ == "__main__":
    sys.exit(main())
