"""Dispatch of simulated zorg invocations (runs inside the forked child).

Every op calls a *real* zorg entry point.  The clack CLI layer is replaced by
duck-typed config objects (clack's config discovery would read $HOME).
"""

from __future__ import annotations

import datetime as _real_dt
import os
import re
from pathlib import Path
from types import SimpleNamespace
from typing import Any


def _tpm(sim: Any) -> dict:
    """template_pattern_map from the world's config: ordered {regex: template}."""
    out = {}
    for pat, tmpl in sim.cfg.get("template_patterns", []):
        out[re.compile(pat)] = Path(tmpl)
    return out


def dispatch(sim: Any, op: dict) -> Any:
    kind = op["op"]
    zdir = Path(sim.zdir)
    if kind == "create":
        from zorg.app.runners._run_db import run_db_create

        cfg = SimpleNamespace(
            zettel_dir=zdir,
            database_url=sim.db_url,
            update_error_file_whitelist=bool(op.get("force")),
            verbose=0,
        )
        return run_db_create(cfg)
    if kind == "reindex":
        from zorg.app.runners._run_db import run_db_reindex

        cfg = SimpleNamespace(
            zettel_dir=zdir,
            database_url=sim.db_url,
            paths=[zdir / p for p in op.get("paths", [])],
            verbose=0,
        )
        return run_db_reindex(cfg)
    if kind == "edit":
        return _edit(sim, op)
    if kind == "move":
        from zorg.app.runners._run_note import run_note_move

        cfg = SimpleNamespace(
            zettel_dir=zdir,
            database_url=sim.db_url,
            template_pattern_map=_tpm(sim),
            zid=op["zid"],
            new_page=Path(op["dest"]),
            note_type=op.get("marker"),
            verbose=0,
        )
        return run_note_move(cfg)
    if kind == "rename":
        from zorg.app.runners._run_file import run_file_rename

        cfg = SimpleNamespace(zettel_dir=zdir, src_name=op["src"], dest_name=op["dst"])
        return run_file_rename(cfg)
    if kind == "tinit":
        from zorg.app.runners._run_template import run_template_init

        cfg = SimpleNamespace(
            zettel_dir=zdir,
            template_pattern_map=_tpm(sim),
            new_path=Path(op["path"]),
            should_overwrite_existing=bool(op.get("force")),
            template=Path(op["template"]) if op.get("template") else None,
            var_map=dict(op.get("vars", {})),
        )
        return run_template_init(cfg)
    if kind == "open":
        from zorg.app.runners._run_action import run_action_open

        cfg = SimpleNamespace(
            zettel_dir=zdir,
            database_url=sim.db_url,
            template_pattern_map=_tpm(sim),
            zo_path=zdir / op["path"],
            line_number=int(op["line"]),
            option_idx=op.get("option"),
            binary_exts=[],
            verbose=0,
        )
        return run_action_open(cfg)
    if kind == "alloc":
        from zorg.storage.sql._zid_manager import ZIDManager

        out = []
        per_manager = op.get("per_manager", 1)
        mgr = None
        for i, d in enumerate(op["dates"]):
            if mgr is None or (per_manager and i % per_manager == 0):
                mgr = ZIDManager(zdir)
            out.append(mgr.get_next(_real_dt.date.fromordinal(d)))
        return out
    if kind == "alloc_until_error":
        from zorg.storage.sql._zid_manager import ZIDManager

        d = _real_dt.date.fromordinal(op["date"])
        out = []
        mgr = ZIDManager(zdir)
        limit = op.get("limit", 10**9)
        try:
            while len(out) < limit:
                out.append(mgr.get_next(d))
        except RuntimeError as e:
            return {"zids": out, "error": str(e), "error_type": "RuntimeError"}
        except Exception as e:  # any other failure is reported as such
            return {"zids": out, "error": str(e), "error_type": type(e).__name__}
        return {"zids": out, "error": None}
    if kind == "alloc_chain":
        # one long allocation history on one date; before the p-th allocation (p in
        # positions) the value zorg persisted for that date is recorded, so that other
        # runs can start from states zorg itself produced (never from made-up ones)
        import json as _json

        from zorg.storage.sql._zid_manager import ZIDManager

        d = _real_dt.date.fromordinal(op["date"])
        key = d.strftime("%y%m%d")
        path = zdir / ".zorg" / "next_ids.json"
        positions = set(op["positions"])
        out = []
        snaps = {}
        res = {"error": None}
        try:
            while len(out) < op["limit"]:
                if len(out) in positions:
                    snaps[str(len(out))] = _json.loads(path.read_text()).get(key) if path.exists() else None
                if len(out) % 997 == 0:
                    mgr = ZIDManager(zdir)
                out.append(mgr.get_next(d))
        except RuntimeError as e:
            res = {"error": str(e), "error_type": "RuntimeError"}
        except Exception as e:
            res = {"error": str(e), "error_type": type(e).__name__}
        if len(out) in positions and str(len(out)) not in snaps:
            snaps[str(len(out))] = _json.loads(path.read_text()).get(key) if path.exists() else None
        res.update({"zids": out, "snapshots": snaps})
        return res
    if kind == "compile":
        from zorg.service.compiler import walk_zorg_page

        page = walk_zorg_page(zdir, Path(op["path"]))
        return {
            "has_errors": bool(page.has_errors),
            "notes": [
                {"line": n.line_no, "zid": n.zid, "body": n.body} for n in page.notes
            ],
        }
    if kind == "compile_many":
        from zorg.service.compiler import walk_zorg_page

        from .core import _exc_info

        out = []
        for path in op["paths"]:
            try:
                page = walk_zorg_page(zdir, Path(path))
                out.append({"has_errors": bool(page.has_errors), "notes": [[n.line_no, n.zid] for n in page.notes]})
            except Exception as e:
                out.append({"exc": _exc_info(e)})
        return out
    if kind == "query":
        from zorg.service import swog

        from .core import _exc_info

        out = []
        for q in op["queries"]:
            try:
                out.append(swog.execute(zdir, sim.db_url, q))
            except Exception as e:  # judged per query by the caller
                info = _exc_info(e)
                out.append({"exc": info["type"], "where": info["where"][-1][1] if info["where"] else "?"})
        return out
    raise ValueError(f"unknown op {kind}")


def _edit(sim: Any, op: dict) -> Any:
    """`zorg edit PATHS` with the editor replaced by the simulated user."""
    import zorg.service.handlers as handlers
    from zorg.app.runners._run_edit import run_edit

    from . import user

    zdir = Path(sim.zdir)
    keep_alive = zdir / ".zorg" / "keep_alive"
    sessions = list(op.get("sessions", []))
    calls = {"n": 0}

    class _Result:
        def unwrap(self) -> None:
            return None

    class _Vimala:
        @staticmethod
        def vim(*paths: Any, commands: Any = None, vim_exe: str = "vim") -> Any:
            list(commands or [])
            i = calls["n"]
            calls["n"] += 1
            if i < len(sessions):
                sess = sessions[i]
                user.apply_edits(str(zdir), sess.get("edits", []), sim.day)
                ka = sess.get("keep_alive")
                if ka is not None:
                    keep_alive.parent.mkdir(parents=True, exist_ok=True)
                    keep_alive.write_text(ka)
            if calls["n"] > len(sessions) + 2:
                raise RuntimeError("zsim: editor restarted more often than scheduled")
            return _Result()

    handlers.vimala = _Vimala  # type: ignore[attr-defined]
    cfg = SimpleNamespace(
        zettel_dir=zdir,
        database_url=sim.db_url,
        template_pattern_map=_tpm(sim),
        zo_paths=[Path(p) for p in op["paths"]],
        file_group_map={},
        keep_alive_file=keep_alive,
        verbose=0,
        vim_commands=[],
        vim_exe="vim",
    )
    ret = run_edit(cfg)
    return {"ret": ret, "editor_calls": calls["n"]}
