"""Shared oracles built from the observers."""

from __future__ import annotations

import os
import re
from typing import Any, Optional

from . import core, observers as ob


def zid_problems(ci: Optional[dict], cf: dict) -> list[dict]:
    out = []
    for name, canon in (("files", cf), ("index", ci)):
        if canon is None:
            continue
        seen: dict[str, tuple] = {}
        for key, n in sorted(canon["notes"].items()):
            z = n.get("zid")
            if z is None:
                if name == "files":
                    out.append({"clause": "zid-missing-in-file", "key": list(key), "note": n})
                continue
            if z in seen:
                out.append(
                    {"clause": f"zid-duplicate-in-{name}", "zid": z, "keys": [list(seen[z]), list(key)]}
                )
            seen[z] = key
    return out


def agreement_problems(sim: core.Sim, *, check_zids: bool = True) -> list[dict]:
    """index == recompiled files, every note has its ZID in the file, no duplicates."""
    ci = ob.canon_index(sim.db_path)
    cf = ob.canon_files(sim.zdir, sim.day)
    out: list[dict] = []
    if ci is None:
        return [{"clause": "no-index"}]
    for d in ob.diff_canon(ci, cf):
        d = dict(d)
        d["clause"] = "index-vs-files:" + (d["kind"] if d["kind"] != "field" else "field:" + d["field"])
        out.append(d)
    ip, fp = set(ci["pages"]), set(cf["pages"])
    for p in sorted(ip - fp):
        out.append({"clause": "page-only-in-index", "page": p})
    for p in sorted(fp - ip):
        out.append({"clause": "page-only-in-files", "page": p})
    for p in sorted(ip & fp):
        if ci["pages"][p]["has_errors"] != cf["pages"][p]["has_errors"]:
            out.append({"clause": "page-error-flag-differs", "page": p, "index": ci["pages"][p]["has_errors"], "files": cf["pages"][p]["has_errors"]})
    for k in ci["dup_notes"]:
        out.append({"clause": "note-duplicated-in-index", "key": list(k)})
    for p in ci["dup_pages"]:
        out.append({"clause": "page-duplicated-in-index", "page": p})
    if check_zids:
        out.extend(zid_problems(ci, cf))
    return out


def noop_reindex_problems(sim: core.Sim, scratch: str, op: Optional[dict] = None) -> list[dict]:
    """A further plain `db reindex` (on a copy) changes no file byte and no index entry."""
    op = op or {"op": "reindex"}
    twin = sim.clone(scratch)
    try:
        before_files = ob.read_all_files(twin.zdir)
        before_ci = ob.canon_index(twin.db_path)
        o = twin.run(op)
        out: list[dict] = []
        if o.status != "ok":
            out.append({"clause": "extra-run-failed", "op": op, "outcome": o.brief()})
            return out
        after_files = ob.read_all_files(twin.zdir)
        after_ci = ob.canon_index(twin.db_path)
        for p in sorted(set(before_files) | set(after_files)):
            if before_files.get(p) != after_files.get(p):
                out.append(
                    {
                        "clause": "extra-run-changed-file",
                        "op": op["op"],
                        "page": p,
                        "before": _txt(before_files.get(p)),
                        "after": _txt(after_files.get(p)),
                    }
                )
        if ob.canon_digest(before_ci) != ob.canon_digest(after_ci):
            diffs = ob.diff_canon(before_ci, after_ci) if before_ci and after_ci else []
            out.append({"clause": "extra-run-changed-index", "op": op["op"], "diffs": diffs[:5]})
        return out
    finally:
        twin.destroy()


def _txt(b: Optional[bytes]) -> Optional[str]:
    return None if b is None else b.decode("utf-8", "replace")


###############################################################################
# cause classes: deterministic predicates that name *why* a clause failed.
# They refer to observable shapes of the input, never to zorg internals.
###############################################################################

_ITEM = re.compile(r"^([-ox~<>])( +)(.*)$")
_PRIO = re.compile(r"^P\d$")
_SHORT = re.compile(r"^\d{6}$")
_LONG = re.compile(r"^\d{4}-\d{2}-\d{2}$")
_ZID = re.compile(r"^\d{6}#[0-9A-Za-z]{2,3}$")


def first_line_shape(line: str) -> list[str]:
    """Shape features of an item's first line that matter for line surgery."""
    m = _ITEM.match(line.rstrip("\r"))
    if not m:
        return ["not-an-item"]
    kind, gap, rest = m.groups()
    feats = []
    if rest.strip(" ") == "" or (kind != "-" and re.fullmatch(r"P\d +", rest)):
        # nothing but the prefix on the first line (the text starts on a continuation line)
        return ["empty-first-line"] + (["crlf"] if line.endswith("\r") else [])
    if len(gap) > 1:
        feats.append("multi-space-after-kind")
    if "  " in rest.strip():
        feats.append("multi-space-in-line")
    words = rest.split()
    i = 0
    if words and _PRIO.match(words[0]):
        if kind == "-":
            feats.append("plain-note-first-word-priority-like")
        i = 1
    if i < len(words) and _SHORT.match(words[i]):
        if not (i + 1 < len(words) and _ZID.match(words[i + 1])):
            feats.append("first-word-6-digits-without-zid")
        i += 1
    if i < len(words) and _ZID.match(words[i]):
        i += 1
        if i < len(words) and (_SHORT.match(words[i]) or _PRIO.match(words[i]) or _LONG.match(words[i])):
            feats.append("lookalike-after-zid")
    else:
        if i < len(words) and _LONG.match(words[i]):
            i += 1
            if i < len(words) and (_SHORT.match(words[i]) or _PRIO.match(words[i]) or _LONG.match(words[i]) or _ZID.match(words[i])):
                feats.append("lookalike-after-long-date")
        elif i < len(words) and words[i] in ("o", "x"):
            feats.append("first-word-kind-like")
        if i < len(words) and _PRIO.match(words[i]) and i > 0:
            feats.append("priority-like-after-prefix")
    if line.endswith("\r"):
        feats.append("crlf")
    return feats or ["regular"]
