"""Setup / self-test: the framework needs no build; this verifies the seams."""

from __future__ import annotations

import json
import os
import shutil
import sys

from . import core, history as hist, observers as ob, runner


def main() -> int:
    core.init_worker()
    print("zorg imported from", sys.modules["zorg"].__file__)
    print("clock shim bound into", len(core.PATCHED_MODULES), "zorg modules")
    scratch = runner.fresh_dir("selftest")
    try:
        case = {
            "world": {"files": {"a.zo": "# T 2024-03-02\n\n- one two\no P1 three\n  * four\n"}, "dirent": "sorted"},
            "run_seed": 1,
            "day0": core.EPOCH_DAY,
        }
        sim = hist.materialize(scratch, case)
        o = sim.run({"op": "create"})
        assert o.status == "ok", o.exc
        kinds = [e["kind"] for e in o.effects]
        assert "commit" in kinds and "write" in kinds and "mkdir" in kinds, kinds
        text = ob.read_all_files(sim.zdir)["a.zo"].decode()
        assert "- 240302#00 one two" in text and "o P1 240302#01 three" in text, text
        n = len(o.effects)
        # crash-before at every boundary fires and follows the golden prefix
        for k in range(n):
            sim2 = hist.materialize(os.path.join(scratch, "k"), case)
            oc = sim2.run({"op": "create"}, fault={"kind": "crash-before", "k": k})
            assert oc.status == "crash", (k, oc.status)
            assert [e["kind"] for e in oc.effects] == kinds[:k], (k, oc.effects)
            sim2.destroy()
        # torn-prefix leaves exactly a strict prefix of what the write would have written
        kw = max(i for i, e in enumerate(o.effects) if e["kind"] == "write" and e.get("size", 0) > 2)
        wpath = o.effects[kw]["path"]
        sim3 = hist.materialize(os.path.join(scratch, "t"), case)
        oc = sim3.run({"op": "create"}, fault={"kind": "torn-prefix", "k": kw, "j_mode": "frac", "j": 0.5})
        assert oc.status == "crash"
        assert oc.effects[-1].get("torn") and oc.effects[-1]["path"] == wpath, oc.effects[-1]
        with core._real_open(os.path.join(sim3.zdir, wpath), "rb") as f:
            torn = f.read()
        assert 0 < len(torn) < o.effects[kw]["size"], (len(torn), o.effects[kw])
        # torn-empty leaves an empty file
        sim5 = hist.materialize(os.path.join(scratch, "e"), case)
        oc = sim5.run({"op": "create"}, fault={"kind": "torn-empty", "k": kw})
        assert oc.status == "crash" and os.path.getsize(os.path.join(sim5.zdir, wpath)) == 0
        # simulated clock reaches ZID allocation
        sim4 = hist.materialize(os.path.join(scratch, "c"), {"world": {"files": {"b.zo": "# T\n\n- x1 y\n"}}, "run_seed": 1, "day0": core.EPOCH_DAY + 400})
        assert sim4.run({"op": "create"}).status == "ok"
        assert b"- 250615#00 x1 y" in ob.read_all_files(sim4.zdir)["b.zo"], ob.read_all_files(sim4.zdir)
        print("selftest ok: effects", kinds)
        return 0
    finally:
        shutil.rmtree(runner.main_scratch(), ignore_errors=True)
