"""Seeded generation of worlds (directories of .zo pages) and user edits.

Everything is drawn from the `random.Random` passed in; nothing else.
"""

from __future__ import annotations

import datetime as _real_dt
import random
from typing import Any, Optional

from . import core
from .user import H_MARK

ZID_ALPHABET = [
    c
    for c in "0123456789ABCDEFGHIJKLMNOPQRSTUVWXYZabcdefghijklmnopqrstuvwxyz"
    if c not in "IOQSgijlpqy"
]

PLAIN = [
    "alpha", "bravo", "charlie", "delta", "echo", "foxtrot", "golf", "hotel",
    "india", "juliet", "kilo", "lima", "mike", "november", "oscar", "papa",
    "Quebec", "romeo", "Sierra", "tango",
]  # fmt: skip
# tag names include extensions of each other (identifier = ALPHANUM (ALPHANUM|_)*)
AREAS = ["work", "home", "gtd", "work_log"]
CONTEXTS = ["desk", "phone", "desk_2"]
PEOPLE = ["ann", "bob", "ann_b"]
PROJECTS = ["zorg", "garden", "zorg_cli"]
PROP_KEYS = ["due", "k", "ID", "RID", "est"]
PAGE_NAMES = ["inbox", "proj", "log", "ideas", "a", "ab", "todo"]
SUBDIRS = ["sub", "sub/deep", "2024"]

ALL_FEATURES = [
    "subdirs",
    "same_basename",
    "multiline",
    "sections",
    "stamps",
    "longdates",
    "page_dates",
    "section_dates",
    "tags",
    "links",
    "props",
    "bullet_props",
    "comments",
    "zid_mentions",
    "midbody_lookalikes",
    "no_trailing_nl",
    "header_tags",
    # rare: known edge-defect triggers (see DESIGN.md section 6)
    "lookalike_first",
    "double_space",
    "crlf",
    "empty_first_line",
]
RARE_FEATURES = {"lookalike_first": 0.10, "double_space": 0.10, "crlf": 0.08, "empty_first_line": 0.04}


def pick_features(rng: random.Random, allow_rare: bool = True) -> list[str]:
    feats = []
    for f in ALL_FEATURES:
        if f in RARE_FEATURES:
            if allow_rare and rng.random() < RARE_FEATURES[f]:
                feats.append(f)
        elif rng.random() < 0.55:
            feats.append(f)
    return feats


def zid_suffix(n: int) -> str:
    """n-th 2-character suffix of the natural chain (independent enumeration)."""
    a = ZID_ALPHABET
    return a[(n // len(a)) % len(a)] + a[n % len(a)]


def short(d: _real_dt.date) -> str:
    return d.strftime("%y%m%d")


class WorldGen:
    def __init__(self, rng: random.Random, feats: list[str], zid_mode: str = "mix"):
        self.rng = rng
        self.feats = set(feats)
        self.zid_mode = zid_mode  # mix | all | none
        self.zid_count: dict[str, int] = {}
        self.zids: list[str] = []
        self.page_names: list[str] = []

    # ------------------------------------------------------------------ atoms
    def has(self, f: str) -> bool:
        return f in self.feats

    def old_date(self) -> _real_dt.date:
        """Date of a pre-existing ZID: 2023, disjoint from allocatable dates."""
        return _real_dt.date(2023, 1, 1) + _real_dt.timedelta(days=self.rng.randrange(0, 360))

    def recent_date(self) -> _real_dt.date:
        """A date in 2024 before the epoch day (page/section/long dates)."""
        return _real_dt.date(2024, 1, 1) + _real_dt.timedelta(days=self.rng.randrange(0, 130))

    def new_zid(self) -> str:
        if self.has("zid3"):
            # 3-character ZIDs (legal: what zorg hands out after `zz`) that EXTEND a
            # 2-character one: either order on a page, so a prefix match picks the wrong note
            r = self.rng
            pend = getattr(self, "_pending_base", None)
            if pend and r.random() < 0.6:
                self._pending_base = None
                self.zids.append(pend)
                return pend
            if r.random() < 0.3:
                two = [z for z in self.zids if len(z) == 9]
                if two and r.random() < 0.5:
                    z = r.choice(two) + r.choice(ZID_ALPHABET)
                    if z not in self.zids:
                        self.zids.append(z)
                        return z
                else:
                    base = f"{short(self.old_date())}#{r.choice(ZID_ALPHABET)}{r.choice(ZID_ALPHABET)}"
                    z = base + r.choice(ZID_ALPHABET)
                    if not any(x.startswith(base) for x in self.zids):
                        self._pending_base = base
                        self.zids.append(z)
                        return z
        d = short(self.old_date() if self.rng.random() < 0.7 or not self.zid_count else
                  _real_dt.datetime.strptime("20" + self.rng.choice(sorted(self.zid_count)), "%Y%m%d").date())
        n = self.zid_count.get(d, 0)
        self.zid_count[d] = n + 1
        z = f"{d}#{zid_suffix(n)}"
        while z in self.zids:  # only with "zid3": a base handed out above
            n += 1
            self.zid_count[d] = n + 1
            z = f"{d}#{zid_suffix(n)}"
        self.zids.append(z)
        return z

    def word(self, first: bool = False) -> str:
        r = self.rng
        x = r.random()
        if first:
            if self.has("lookalike_first") and x < 0.5:
                return r.choice(["P5", short(self.recent_date()), "o", "x", "P1", self.recent_date().isoformat().replace("-", "/"), self.recent_date().isoformat().replace("-", "."), "2024x01y05", "2024-1-5", "20240105"])
            return r.choice(PLAIN)
        if x < 0.55:
            return r.choice(PLAIN)
        if x < 0.65 and self.has("tags"):
            k = r.randrange(4)
            tag = [
                "#" + r.choice(AREAS),
                "@" + r.choice(CONTEXTS),
                "%" + r.choice(PEOPLE),
                "+" + r.choice(PROJECTS),
            ][k]
            y = r.random()
            if y < 0.08:
                return tag + r.choice([",", ".", ";", "!", "?", ":"])
            if y < 0.12:
                return "(" + tag + ")"
            return tag
        if x < 0.73 and self.has("links"):
            k = r.randrange(6)
            pn = r.choice(self.page_names or PAGE_NAMES)
            if k == 0:
                return f"[[{pn}]]"
            if k == 1:
                return f"[[{pn}#{r.choice(PLAIN)}]]"
            if k == 2:
                return f"[#{r.choice(PLAIN)}]"
            if k == 3:
                return f"[@{r.choice(PLAIN)}]"
            if k == 4:
                return f"[^{r.choice(PLAIN)}]"
            if self.zids:
                return f"[{r.choice(self.zids)}]"
            return f"[[{pn}]]"
        if x < 0.745 and self.has("links"):
            return r.choice(["https://www.example.com/a/b?c=d#e", "http://foo.bar", "((embed))", "[!site]"])
        if x < 0.76 and self.has("props"):
            # inline, quoted (must be ignored) and url-valued properties
            return r.choice(["[ik::foo]", "[ik:: two words]", "'qk::quoted'", '"qk::quoted"', "uk::https://a.b/c", "[ik::a::b]"])
        if x < 0.80 and self.has("props"):
            key = r.choice(PROP_KEYS)
            if key == "due":
                return f"due::{self.recent_date().isoformat()}"
            if key == "est":
                return f"est::{r.randrange(1, 99)}"
            return f"{key}::{r.choice(PLAIN)}{r.randrange(9)}"
        if x < 0.86 and self.has("midbody_lookalikes"):
            return r.choice(["P5", "o", "x", short(self.recent_date()), self.recent_date().isoformat(), "1230", "P0"])
        if x < 0.90 and self.has("zid_mentions") and self.zids:
            return r.choice(self.zids)
        return r.choice(PLAIN)

    def words(self, lo: int = 1, hi: int = 6, first: bool = True) -> list[str]:
        n = self.rng.randint(lo, hi)
        out = [self.word(first=first)]
        out.extend(self.word() for _ in range(n - 1))
        return out

    def header_words(self) -> list[str]:
        r = self.rng
        out = [r.choice(PLAIN).capitalize()]
        for _ in range(r.randrange(0, 3)):
            out.append(r.choice(PLAIN))
        if self.has("header_tags"):
            if r.random() < 0.5:
                out.append(r.choice(["#" + r.choice(AREAS), "@" + r.choice(CONTEXTS), "%" + r.choice(PEOPLE), "+" + r.choice(PROJECTS)]))
            if r.random() < 0.3 and self.has("props"):
                out.append(f"hk::{r.choice(PLAIN)}")
            if r.random() < 0.25 and self.has("links"):
                out.append(f"[[{r.choice(self.page_names or PAGE_NAMES)}]]")
        return out

    # ------------------------------------------------------------------ items
    def item(self, with_zid: Optional[bool] = None, kind: Optional[str] = None) -> list[str]:
        """-> lines of one item."""
        r = self.rng
        kind = kind or r.choice("---ooox~<>")
        if with_zid is None:
            with_zid = {"all": True, "none": False}.get(self.zid_mode, r.random() < 0.5)
        parts = [kind]
        if kind != "-" and r.random() < 0.4:
            parts.append(f"P{r.randrange(10)}")
        if with_zid:
            zid = self.new_zid()
            if self.has("stamps") and r.random() < 0.35:
                if r.random() < 0.2:
                    # a modify date EARLIER than the date in the ZID (hand-written or pasted; legal)
                    zd = _real_dt.datetime.strptime("20" + zid[:6], "%Y%m%d").date()
                    parts.append(short(zd - _real_dt.timedelta(days=r.randint(1, 40))))
                else:
                    parts.append(short(self.recent_date()))
            parts.append(zid)
        elif self.has("longdates") and r.random() < 0.3:
            parts.append(self.recent_date().isoformat())
            date_only = r.random() < 0.12
        body = self.words(first=True)
        if not with_zid and len(parts) > 1 and parts[-1][:2] == "20" and len(parts[-1]) == 10 and locals().get("date_only"):
            body = []  # the create date is the note's whole first line
        sep = " "
        if self.has("double_space") and r.random() < 0.4:
            sep = "  "
        line = kind + sep + " ".join(parts[1:] + body)
        if self.has("double_space") and len(body) >= 2 and r.random() < 0.35:
            # irregular spacing INSIDE the text (two spaces after a full stop, aligned columns)
            i = r.randrange(1, len(body))
            line = kind + sep + " ".join(parts[1:] + body[:i]) + "  " + " ".join(body[i:])
        lines = [line]
        if self.has("multiline") and r.random() < 0.4:
            for _ in range(r.randint(1, 3)):
                x = r.random()
                if x < 0.5:
                    lines.append("  * " + " ".join(self.words(first=False)))
                elif x < 0.65 and lines[-1].startswith(("  * ", "    - ")):
                    lines.append("    - " + " ".join(self.words(first=False)))
                elif x < 0.8:
                    lines.append("  " + " ".join(self.words(first=False)))
                elif self.has("bullet_props"):
                    y = r.random()
                    if y < 0.7:
                        lines.append(f"  * bp{r.randrange(3)}:: " + " ".join(r.choice(PLAIN) for _ in range(r.randint(1, 3))))
                    elif y < 0.85:
                        lines.append("  * [X] done " + r.choice(PLAIN))
                        lines.append("  * [ ] open " + r.choice(PLAIN))
                    else:
                        lines.append("  * DRAWER:")
                        lines.append(f"    - dk{r.randrange(2)}:: " + r.choice(PLAIN) + " " + r.choice(PLAIN))
                else:
                    lines.append("  * " + r.choice(PLAIN))
            if self.has("double_space") and r.random() < 0.2:
                lines[0] = lines[0] + " "  # trailing space on the first line of a multi-line item
            if self.has("empty_first_line") and not with_zid and r.random() < 0.3:
                # a todo / note whose text starts on the continuation line (known finding, DESIGN 10.4)
                prio = f" P{r.randrange(10)}" if kind != "-" and r.random() < 0.5 else ""
                lines[0] = kind + prio + " "
        return lines

    def block(self, lo: int = 1, hi: int = 4) -> list[str]:
        out: list[str] = []
        for _ in range(self.rng.randint(lo, hi)):
            out.extend(self.item())
            if self.has("comments") and self.rng.random() < 0.12:
                out.append("# " + " ".join(self.rng.choice(PLAIN) for _ in range(2)))
        return out

    # ------------------------------------------------------------------ pages
    def page(self, max_items: int = 8) -> str:
        r = self.rng
        title = self.header_words()
        if self.has("page_dates") and r.random() < 0.5:
            title.append(self.recent_date().isoformat())
        lines = ["# " + " ".join(title)]
        for _ in range(r.randrange(0, 3)):
            extra = [r.choice(PLAIN) for _ in range(r.randint(1, 3))]
            if self.has("props") and r.random() < 0.3:
                extra.append(f"fk::{r.choice(PLAIN)}")
            lines.append("# " + " ".join(extra))
        lines.append("")
        budget = r.randint(0, max_items)
        used = 0
        # top-level blocks
        nb = r.randint(0, 2) if budget else 0
        for _ in range(nb):
            if used >= budget:
                break
            blk = self.block(1, min(3, budget - used))
            used += sum(1 for ln in blk if ln[:2] in ("- ", "o ", "x ", "~ ", "< ", "> "))
            lines.extend(blk)
            lines.append("")
        if self.has("sections") and budget:
            level = 0
            for _ in range(r.randint(1, 4)):
                # legal nesting: next level in 1..level+1 (h2 may come first)
                lo = 1
                hi = min(4, level + 1) if level else 2
                level = r.randint(lo, hi)
                hw = self.header_words()
                if self.has("section_dates") and r.random() < 0.3:
                    hw.append(self.recent_date().isoformat())
                lines.append(f"{H_MARK[level]} {' '.join(hw)}")
                if r.random() < 0.3:
                    lines.append("")
                if used < budget and r.random() < 0.85:
                    blk = self.block(1, min(3, budget - used))
                    used += sum(1 for ln in blk if ln[:2] in ("- ", "o ", "x ", "~ ", "< ", "> "))
                    lines.extend(blk)
                    if r.random() < 0.6:
                        lines.append("")
        text = "\n".join(lines)
        if not text.endswith("\n"):
            text += "\n"
        if self.has("no_trailing_nl") and r.random() < 0.3 and not lines[-1].startswith(tuple(H_MARK.values())):
            # keep the final NL of the last item (an item needs it) but drop
            # trailing blank lines
            text = text.rstrip("\n") + "\n"
        if self.has("crlf") and r.random() < 0.5:
            text = text.replace("\n", "\r\n")
        return text

    def page_paths(self, n: int) -> list[str]:
        r = self.rng
        names = r.sample(PAGE_NAMES, k=min(n, len(PAGE_NAMES)))
        out = []
        for i, nm in enumerate(names):
            if self.has("subdirs") and r.random() < 0.4:
                out.append(f"{r.choice(SUBDIRS)}/{nm}.zo")
            else:
                out.append(f"{nm}.zo")
        if self.has("same_basename") and len(out) >= 2:
            base = out[0].rsplit("/", 1)[-1]
            cand = f"{r.choice(SUBDIRS)}/{base}"
            if cand not in out:
                out[1] = cand
        return out


def gen_world(
    rng: random.Random,
    *,
    feats: Optional[list[str]] = None,
    pages: tuple = (1, 4),
    max_items: int = 8,
    zid_mode: Optional[str] = None,
    allow_rare: bool = True,
) -> dict:
    """-> {"files": {rel: text}, "features": [...], "dirent": mode}"""
    feats = pick_features(rng, allow_rare) if feats is None else list(feats)
    if zid_mode is None:
        zid_mode = rng.choice(["mix", "mix", "mix", "all", "none"])
    g = WorldGen(rng, feats, zid_mode)
    n = rng.randint(*pages)
    paths = g.page_paths(n)
    g.page_names = [p[:-3] for p in paths]
    files = {p: g.page(max_items) for p in paths}
    return {
        "files": files,
        "features": sorted(feats),
        "zid_mode": zid_mode,
        "dirent": rng.choice(["sorted", "reversed", "shuffled"]),
        # where the notes directory lives (hidden components, a space, dots in its own path)
        "home": rng.choice(["org"] * 5 + [".local/share/zorg", "my notes/org", "org.d/v1.2"]),
    }


###############################################################################
# user edits
###############################################################################

EDIT_WEIGHTS = {
    "word_change": 10,
    "word_add": 8,
    "word_remove": 5,
    "bullet_add": 5,
    "bullet_remove": 3,
    "cont_change": 3,
    "kind_change": 6,
    "prio_change": 5,
    "stamp_remove": 3,
    "stamp_set": 2,
    "note_delete": 4,
    "note_insert": 10,
    "cutpaste": 4,
    "title_edit": 3,
    "head_add": 1,
    "section_edit": 3,
    "section_delete": 2,
    "section_add": 3,
    "blank_insert": 2,
    "comment_add": 1,
    "page_add": 3,
    "page_delete": 2,
    "page_mv": 2,
    "page_restore": 2,
}


def gen_edit(rng: random.Random, feats: list[str], weights: Optional[dict] = None, zids: Optional[list[str]] = None) -> dict:
    w = dict(EDIT_WEIGHTS if weights is None else weights)
    kinds = sorted(w)
    kind = rng.choices(kinds, weights=[w[k] for k in kinds])[0]
    g = WorldGen(rng, [f for f in feats if f not in ("lookalike_first", "double_space", "crlf")], "none")
    g.zids = list(zids or [])
    e: dict[str, Any] = {"e": kind, "page": rng.randrange(1000), "item": rng.randrange(1000)}
    if kind in ("word_change", "word_add"):
        e["pos"] = rng.randrange(1000)
        e["word"] = g.word(first=False)
    elif kind == "word_remove":
        e["pos"] = rng.randrange(1000)
    elif kind == "bullet_add":
        e["text"] = "  * " + " ".join(g.words(first=False, hi=3))
    elif kind in ("bullet_remove", "cont_change"):
        e["pos"] = rng.randrange(1000)
        e["word"] = rng.choice(PLAIN)
    elif kind == "kind_change":
        e["kind"] = rng.choice("-ox~<>")
    elif kind == "prio_change":
        e["priority"] = rng.choice([None, "P0", "P1", "P2", "P4", "P9"])
    elif kind == "stamp_set":
        e["days_ago"] = rng.choice([0, 1, 1, 2, 30])
    elif kind == "note_insert":
        e["where"] = rng.choice(["after", "after", "newblock", "before", "end"])
        e["text"] = "\n".join(g.item(with_zid=False))
    elif kind == "cutpaste":
        e["to"] = rng.randrange(1000)
    elif kind in ("title_edit", "head_add", "section_edit"):
        e["text"] = " ".join(g.header_words())
        e["sec"] = rng.randrange(1000)
    elif kind == "section_delete":
        e["sec"] = rng.randrange(1000)
    elif kind == "section_add":
        e["level"] = rng.choice([1, 1, 2])
        e["text"] = " ".join(g.header_words())
        e["where"] = rng.choice(["end", "before_item"])
        e["item_text"] = "\n".join(g.item(with_zid=False))
    elif kind == "comment_add":
        e["text"] = " ".join(rng.choice(PLAIN) for _ in range(2))
    elif kind == "page_add":
        nm = rng.choice(PAGE_NAMES) + str(rng.randrange(3))
        e["path"] = (rng.choice(SUBDIRS) + "/" if "subdirs" in feats and rng.random() < 0.3 else "") + nm + ".zo"
        g2 = WorldGen(rng, [f for f in feats if f not in ("lookalike_first", "double_space", "crlf")], "none")
        e["text"] = g2.page(4)
    elif kind == "page_mv":
        nm = rng.choice(PAGE_NAMES) + "m" + str(rng.randrange(3))
        e["to"] = (rng.choice(SUBDIRS) + "/" if "subdirs" in feats and rng.random() < 0.3 else "") + nm + ".zo"
    return e
