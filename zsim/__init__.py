"""zsim -- a deterministic single-machine simulator for zorg.

See /verif/DESIGN.md.  Everything that decides a run is derived from one
integer (VERIF_SEED); every zorg invocation is a real forked child process
running the real code from /repo/src under a simulated clock, a simulated
user/editor and a fault-injecting effect tap.
"""
