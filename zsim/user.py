"""The simulated user: structural text edits of .zo pages.

Edits are data (dicts).  They address their target structurally on the
*current* content ("page i mod n, item j mod m, word k mod w") so that they
stay meaningful when a minimiser removes earlier steps.  The text model here
is independent of zorg: a page is a list of lines classified as head comment,
blank, section header, item first line, continuation line or block comment.

An edit that would make a page syntactically invalid (checked with the real
parser) is reverted and reported as discarded, never applied.
"""

from __future__ import annotations

import datetime as _real_dt
import os
import re
from typing import Any, Optional

from . import core

H_MARK = {
    1: "################################",
    2: "========================",
    3: "++++++++++++++++",
    4: "--------",
}
_ITEM_START = re.compile(r"^[-ox~<>] ")
_ZID = re.compile(r"^\d{6}#[0-9A-Za-z]{2,3}$")
_SHORT = re.compile(r"^\d{6}$")
_PRIO = re.compile(r"^P\d$")


def _read(path: str) -> str:
    with core._real_open(path, "r", encoding="utf-8", newline="") as f:
        return f.read()


def _write(path: str, text: str) -> None:
    os.makedirs(os.path.dirname(path), exist_ok=True)
    with core._real_open(path, "w", encoding="utf-8", newline="") as f:
        f.write(text)


###############################################################################
# text model
###############################################################################


def classify(lines: list[str]) -> list[str]:
    """-> one tag per line: head, blank, h1..h4, item, cont, comment, other."""
    tags = []
    in_head = True
    for line in lines:
        s = line.rstrip("\r")
        if in_head and s.startswith("#") and not s.startswith(H_MARK[1]):
            tags.append("head")
            continue
        in_head = False
        if s.strip() == "":
            tags.append("blank")
        elif s.startswith(H_MARK[1] + " "):
            tags.append("h1")
        elif s.startswith(H_MARK[2] + " "):
            tags.append("h2")
        elif s.startswith(H_MARK[3] + " "):
            tags.append("h3")
        elif s.startswith(H_MARK[4] + " "):
            tags.append("h4")
        elif _ITEM_START.match(s):
            tags.append("item")
        elif s.startswith(" "):
            tags.append("cont")
        elif s.startswith("#"):
            tags.append("comment")
        else:
            tags.append("other")
    return tags


def items_of(lines: list[str]) -> list[tuple[int, int]]:
    """-> [(first line idx, end idx exclusive)] of every item."""
    tags = classify(lines)
    out = []
    i = 0
    while i < len(lines):
        if tags[i] == "item":
            j = i + 1
            while j < len(lines) and tags[j] == "cont":
                j += 1
            out.append((i, j))
            i = j
        else:
            i += 1
    return out


def split_first(line: str) -> dict:
    """Split an item's first line: kind, priority, stamp, zid, words."""
    kind = line[0]
    words = line[2:].split(" ")
    lead = 0
    while lead < len(words) - 1 and words[lead] == "":
        lead += 1
    words = words[lead:]
    prio = stamp = zid = None
    if kind != "-" and words and _PRIO.match(words[0]):
        prio = words.pop(0)
    if len(words) >= 2 and _SHORT.match(words[0]) and _ZID.match(words[1]):
        stamp = words.pop(0)
    if words and _ZID.match(words[0]):
        zid = words.pop(0)
    return {"kind": kind, "priority": prio, "stamp": stamp, "zid": zid, "words": words, "lead": lead}


def join_first(p: dict) -> str:
    parts = [p["kind"]]
    if p["priority"]:
        parts.append(p["priority"])
    if p["stamp"]:
        parts.append(p["stamp"])
    if p["zid"]:
        parts.append(p["zid"])
    parts.extend(p["words"])
    return " ".join(parts)


###############################################################################
# applying edits
###############################################################################


def list_zo(zdir: str) -> list[str]:
    out = []
    for dirpath, dirnames, filenames in os.walk(zdir):
        dirnames[:] = sorted(d for d in dirnames if d != ".zorg")
        for fn in sorted(filenames):
            if fn.endswith(".zo"):
                out.append(os.path.relpath(os.path.join(dirpath, fn), zdir))
    return sorted(out)


def _valid(zdir: str, rel: str) -> bool:
    """True iff the real parser accepts the page and sees one note per item."""
    core.init_worker()
    from pathlib import Path

    from zorg.service.compiler import walk_zorg_page
    from zorg.service.compiler._file_compiler import ErrorManager  # noqa: F401

    try:
        page = _walk_with_errors(zdir, rel)
    except Exception:
        return False
    if page is None:
        return False
    lines = _read(os.path.join(zdir, rel)).split("\n")
    return len(page.notes) == len(items_of(lines))


def _walk_with_errors(zdir: str, rel: str) -> Any:
    """Compile and return the page, or None when the parser reported errors."""
    import antlr4
    from pathlib import Path

    from zorg.domain.models import Page
    from zorg.grammar.zorg_file.ZorgFileLexer import ZorgFileLexer
    from zorg.grammar.zorg_file.ZorgFileParser import ZorgFileParser
    from zorg.service.compiler._file_compiler import ErrorManager, ZorgFileCompiler

    path = Path(zdir) / rel
    page = Page(path)
    stream = antlr4.FileStream(str(path), errors="ignore")
    lexer = ZorgFileLexer(stream)
    lexer.removeErrorListeners()
    tokens = antlr4.CommonTokenStream(lexer)
    parser = ZorgFileParser(tokens)
    parser.removeErrorListeners()
    em = ErrorManager()
    parser.addErrorListener(em)
    tree = parser.prog()
    if em.errors:
        return None
    antlr4.ParseTreeWalker().walk(ZorgFileCompiler(page, em), tree)
    return page


def apply_edits(zdir: str, edits: list[dict], day: int, validate: bool = True) -> list[dict]:
    """Apply `edits` in order; returns one report per edit."""
    reports = []
    for e in edits:
        try:
            rep = _apply_one(zdir, e, day, validate)
        except _Skip as s:
            rep = {"applied": False, "why": str(s)}
        reports.append(rep)
    return reports


class _Skip(Exception):
    pass


def _pick_page(zdir: str, e: dict, key: str = "page") -> str:
    pages = list_zo(zdir)
    if not pages:
        raise _Skip("no pages")
    return pages[e.get(key, 0) % len(pages)]


def _apply_one(zdir: str, e: dict, day: int, validate: bool) -> dict:
    kind = e["e"]
    if kind == "page_add":
        rel = e["path"]
        path = os.path.join(zdir, rel)
        if os.path.exists(path):
            raise _Skip("exists")
        _write(path, e["text"])
        if validate and not _valid(zdir, rel):
            os.unlink(path)
            raise _Skip("invalid")
        return {"applied": True, "pages": [rel]}
    if kind == "page_delete":
        rel = _pick_page(zdir, e)
        if len(list_zo(zdir)) <= 1:
            raise _Skip("last page")
        # the user's "trash": a deleted page can come back unchanged later (page_restore)
        trash = os.path.join(os.path.dirname(zdir.rstrip("/")), "trash", rel)
        os.makedirs(os.path.dirname(trash), exist_ok=True)
        os.replace(os.path.join(zdir, rel), trash)
        return {"applied": True, "pages": [rel], "deleted": rel}
    if kind == "page_restore":
        troot = os.path.join(os.path.dirname(zdir.rstrip("/")), "trash")
        cands = []
        for dirpath, _dirs, files in os.walk(troot):
            for fn in sorted(files):
                cands.append(os.path.relpath(os.path.join(dirpath, fn), troot))
        cands = sorted(c for c in cands if not os.path.exists(os.path.join(zdir, c)))
        if not cands:
            raise _Skip("nothing to restore")
        rel = cands[e.get("page", 0) % len(cands)]
        os.makedirs(os.path.dirname(os.path.join(zdir, rel)), exist_ok=True)
        os.replace(os.path.join(troot, rel), os.path.join(zdir, rel))
        return {"applied": True, "pages": [rel], "restored": rel}
    if kind == "page_mv":
        rel = _pick_page(zdir, e)
        new = e["to"]
        if os.path.exists(os.path.join(zdir, new)):
            raise _Skip("exists")
        os.makedirs(os.path.dirname(os.path.join(zdir, new)), exist_ok=True)
        os.rename(os.path.join(zdir, rel), os.path.join(zdir, new))
        return {"applied": True, "pages": [rel, new], "renamed": [rel, new]}
    if kind == "cutpaste":
        src = _pick_page(zdir, e)
        dst = _pick_page(zdir, e, "to")
        if src == dst:
            raise _Skip("same page")
        stext = _read(os.path.join(zdir, src))
        dtext = _read(os.path.join(zdir, dst))
        slines = stext.split("\n")
        its = items_of(slines)
        if not its:
            raise _Skip("no items")
        a, b = its[e.get("item", 0) % len(its)]
        chunk = slines[a:b]
        new_s = "\n".join(slines[:a] + slines[b:])
        new_d = _append_item(dtext, chunk)
        return _commit_many(zdir, {src: (stext, new_s), dst: (dtext, new_d)}, validate)

    rel = _pick_page(zdir, e)
    path = os.path.join(zdir, rel)
    old = _read(path)
    new = _edit_text(old, e, day)
    if new == old:
        raise _Skip("no change")
    return _commit_many(zdir, {rel: (old, new)}, validate)


def _commit_many(zdir: str, changes: dict, validate: bool) -> dict:
    for rel, (old, new) in changes.items():
        _write(os.path.join(zdir, rel), new)
    if validate:
        for rel in changes:
            if not _valid(zdir, rel):
                for r2, (old, new) in changes.items():
                    _write(os.path.join(zdir, r2), old)
                raise _Skip("invalid")
    return {"applied": True, "pages": sorted(changes)}


def _append_item(text: str, chunk: list[str], force_blank: bool = False) -> str:
    lines = text.split("\n")
    # strip trailing empty strings (trailing newline / blank lines)
    tail = 0
    while lines and lines[-1] == "":
        lines.pop()
        tail += 1
    tags = classify(lines)
    if tags and tags[-1] in ("item", "cont", "comment") and not force_blank:
        lines.extend(chunk)
    else:
        lines.append("")
        lines.extend(chunk)
    return "\n".join(lines) + "\n"


def _edit_text(text: str, e: dict, day: int) -> str:
    kind = e["e"]
    lines = text.split("\n")
    its = items_of(lines)

    def item() -> tuple[int, int]:
        if not its:
            raise _Skip("no items")
        return its[e.get("item", 0) % len(its)]

    if kind in ("word_change", "word_add", "word_remove"):
        a, b = item()
        p = split_first(lines[a])
        w = p["words"]
        if kind == "word_add":
            w.insert(e.get("pos", len(w)) % (len(w) + 1) if w else 0, e["word"])
        elif kind == "word_change":
            if not w:
                raise _Skip("no words")
            w[e.get("pos", 0) % len(w)] = e["word"]
        else:
            if len(w) <= 1:
                raise _Skip("would empty the note")
            w.pop(e.get("pos", 0) % len(w))
        lines[a] = join_first(p)
    elif kind == "bullet_add":
        a, b = item()
        lines[b:b] = [e.get("text", "  * bullet")]
    elif kind == "bullet_remove":
        a, b = item()
        if b - a <= 1:
            raise _Skip("no continuation")
        del lines[a + 1 + e.get("pos", 0) % (b - a - 1)]
    elif kind == "cont_change":
        a, b = item()
        if b - a <= 1:
            raise _Skip("no continuation")
        idx = a + 1 + e.get("pos", 0) % (b - a - 1)
        lines[idx] = lines[idx] + " " + e.get("word", "more")
    elif kind == "kind_change":
        a, b = item()
        p = split_first(lines[a])
        p["kind"] = e["kind"]
        if p["kind"] == "-":
            p["priority"] = None
        lines[a] = join_first(p)
    elif kind == "prio_change":
        a, b = item()
        p = split_first(lines[a])
        if p["kind"] == "-":
            raise _Skip("plain note")
        p["priority"] = e.get("priority")
        lines[a] = join_first(p)
    elif kind == "stamp_remove":
        a, b = item()
        p = split_first(lines[a])
        if not p["stamp"]:
            raise _Skip("no stamp")
        p["stamp"] = None
        lines[a] = join_first(p)
    elif kind == "stamp_set":
        a, b = item()
        p = split_first(lines[a])
        if not p["zid"]:
            raise _Skip("no zid")
        d = _real_dt.date.fromordinal(day - e.get("days_ago", 1))
        p["stamp"] = d.strftime("%y%m%d")
        lines[a] = join_first(p)
    elif kind == "note_delete":
        a, b = item()
        del lines[a:b]
    elif kind == "note_insert":
        new_lines = e["text"].split("\n")
        where = e.get("where", "after")
        if where == "after" and its:
            a, b = item()
            lines[b:b] = new_lines
        elif where == "newblock" or not its:
            return _append_item("\n".join(lines), new_lines, force_blank=True)
        elif where == "before":
            a, b = item()
            lines[a:a] = new_lines
        else:
            return _append_item("\n".join(lines), new_lines)
    elif kind == "title_edit":
        if not lines or not lines[0].startswith("#"):
            raise _Skip("no title")
        lines[0] = "# " + e["text"]
    elif kind == "head_add":
        tags = classify(lines)
        n = 0
        while n < len(tags) and tags[n] == "head":
            n += 1
        lines[n:n] = ["# " + e["text"]]
    elif kind == "section_edit":
        tags = classify(lines)
        secs = [i for i, t in enumerate(tags) if t in ("h1", "h2", "h3", "h4")]
        if not secs:
            raise _Skip("no sections")
        i = secs[e.get("sec", 0) % len(secs)]
        lvl = int(tags[i][1])
        lines[i] = f"{H_MARK[lvl]} {e['text']}"
    elif kind == "section_delete":
        tags = classify(lines)
        secs = [i for i, t in enumerate(tags) if t in ("h1", "h2", "h3", "h4")]
        if not secs:
            raise _Skip("no sections")
        del lines[secs[e.get("sec", 0) % len(secs)]]
    elif kind == "section_add":
        lvl = e.get("level", 1)
        hdr = f"{H_MARK[lvl]} {e['text']}"
        if its and e.get("where") == "before_item":
            a, b = item()
            lines[a:a] = [hdr]
        else:
            while lines and lines[-1] == "":
                lines.pop()
            lines.extend(["", hdr, e.get("item_text", "- under new section"), ""])
    elif kind == "blank_insert":
        a, b = item()
        lines[b:b] = [""]
    elif kind == "comment_add":
        a, b = item()
        lines[b:b] = ["# " + e.get("text", "a comment")]
    elif kind == "raw_replace":
        return e["text"]
    else:
        raise ValueError(f"unknown edit {kind}")
    return "\n".join(lines)
