"""Command line of the zsim checks."""

from __future__ import annotations

import argparse
import os
import sys

from . import runner


def main(argv: list[str]) -> int:
    ap = argparse.ArgumentParser(prog="check")
    ap.add_argument("prop")
    ap.add_argument("--tier", default=os.environ.get("VERIF_TIER", "quick"), choices=["quick", "thorough"])
    ap.add_argument("--seed", type=int, default=None)
    ap.add_argument("--replay", default=None)
    ap.add_argument("--runs", type=int, default=None)
    ap.add_argument("--workers", type=int, default=None)
    ap.add_argument("--digests", default=None, help="internal: print digests of the given run indices")
    ap.add_argument("--no-selftest", action="store_true")
    ap.add_argument("--survey", action="store_true", help="print a histogram of violation signatures; no minimisation, no evidence")
    args = ap.parse_args(argv)
    pid = args.prop.upper()
    seed = args.seed
    if seed is None:
        try:
            seed = int(os.environ.get("VERIF_SEED", runner.DEFAULT_SEED))
        except ValueError:
            seed = runner.DEFAULT_SEED
    if pid == "SELFTEST":
        from . import selftest

        return selftest.main()
    if pid not in runner.PROPS:
        print(f"unknown property {pid}; claimed: {runner.PROPS}")
        return 2
    try:
        if args.replay:
            return runner.replay(pid, args.replay)
        if args.digests is not None:
            idxs = [int(x) for x in args.digests.split(",") if x]
            return runner.print_digests(pid, args.tier, seed, idxs)
        return runner.run_check(pid, args.tier, seed, runs=args.runs, workers=args.workers, selftest=not args.no_selftest and not args.survey, survey=args.survey)
    except runner.HarnessError as e:
        print(f"HARNESS-ERROR {e}")
        return 2
    except Exception:
        import traceback

        print("HARNESS-ERROR " + traceback.format_exc().replace("\n", "\n    "))
        return 2
