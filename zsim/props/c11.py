"""C11 -- modification dates are stamped on exactly the notes that were edited.

Profile `index-history` with day changes as the essential fault.  An
independent model (previous index rows x recompiled files x the hash map as
read before the step) predicts the stamp set; the oracle checks both
directions of the iff, the exact first-line rewrite, byte identity of every
other line, file/index agreement and quiescence of an immediate second reindex.
"""

from __future__ import annotations

import datetime as _real_dt
import os
import random
import re
from typing import Any, Optional

from .. import core, gen, history as hist, observers as ob, oracles, user
from . import _idx
from .c05 import zid_insertion_problem

ID = "C11"
LEVEL = "exploration"
RUNS = {"quick": 220, "thorough": 8000}
WALL_CAP = {"quick": 280, "thorough": 1500}
RULE = (
    "case = seeded world + db create on day D0 + 3-8 rounds of (optional day change; user edits biased "
    "to bodies, bullets, kinds, priorities, stamp removal / hand-editing, header-only edits, new notes "
    "next to edited ones, notes pasted from other pages; db reindex with or without paths, or an edit "
    "session), each followed by an immediate second plain reindex on a copy. non-trivial = a reach "
    "probe fired (stamp inserted, stamp replaced, stamp skipped because already today, edit on creation "
    "day, todo-state-only change, header-only edit, new+edited note on one page, user removed stamp, "
    "pasted foreign ZID, multi-line item stamped, ...); distinct = distinct final world-state digest"
)

_EDIT_WEIGHTS = {
    "word_change": 12,
    "word_add": 8,
    "word_remove": 4,
    "bullet_add": 5,
    "bullet_remove": 3,
    "cont_change": 3,
    "kind_change": 7,
    "prio_change": 6,
    "stamp_remove": 5,
    "stamp_set": 3,
    "note_insert": 8,
    "note_delete": 2,
    "cutpaste": 4,
    "title_edit": 4,
    "section_edit": 3,
    "section_add": 2,
    "blank_insert": 1,
    "page_add": 2,
}


def gen_case(rng: random.Random, tier: str) -> dict:
    feats0 = gen.pick_features(rng, allow_rare=False)
    if rng.random() < 0.25:
        # irregular spacing after the prefix and INSIDE the text: a stamp rewrite must keep it
        feats0.append("double_space")
    world = gen.gen_world(rng, feats=feats0, pages=(1, 3), max_items=6, zid_mode=rng.choice(["mix", "all", "all"]))
    feats = world["features"]
    steps: list[dict] = []
    for _ in range(rng.randint(3, 8)):
        if rng.random() < 0.5:
            steps.append({"op": "day", "days": rng.choice([1, 1, 1, 2, 7, 30, 31, 365, -1, -5])})  # negative: clock set back
        x = rng.random()
        if x < 0.82:
            steps.append(_idx.gen_user_step(rng, feats, _EDIT_WEIGHTS, 1, 4))
            y = rng.random()
            if y < 0.7:
                steps.append({"op": "reindex"})
                if rng.random() < 0.12:
                    # fault: midnight strikes during the command, after a seeded number of clock reads
                    steps[-1]["tick"] = rng.randrange(0, 5)
            else:
                steps.append({"op": "reindex", "paths": {"pick": [rng.randrange(1000) for _ in range(rng.randint(1, 2))]}})
        else:
            steps.append(
                {
                    "op": "edit",
                    "paths": {"pick": [rng.randrange(1000)]},
                    "sessions": [{"edits": [gen.gen_edit(rng, feats, _EDIT_WEIGHTS) for _ in range(rng.randint(1, 3))]}],
                }
            )
    return {"world": world, "steps": steps, "day0": core.EPOCH_DAY + rng.randrange(0, 300)}


def describe(case: dict) -> Any:
    return {"files": case["world"]["files"], "steps": case["steps"], "day0": case["day0"]}


###############################################################################
# the stamp model
###############################################################################

_SHORT = re.compile(r"^\d{6}$")


def predict(sim: core.Sim, files_zdir: str, candidates: list[str], rec: hist.Rec, indexed: dict) -> Optional[dict]:
    """-> {"S": {(page, line): info}, "new": {(page, line)}, "processed": [...]} or None
    when the pre-state is outside the model (duplicate ZIDs on one page)."""
    today = _real_dt.date.fromordinal(sim.day).isoformat()
    # "changed page" = its bytes differ from what they were when an index command last
    # covered it successfully (tracked by the harness; zorg's own book-keeping file is not
    # consulted, so its layout is free to change and its corruption cannot blind the model).
    # zorg may process MORE pages than these (e.g. after an explicit-path run), but
    # reprocessing an unchanged page stamps nothing.
    processed = []
    for p in candidates:
        full = os.path.join(files_zdir, p)
        if os.path.exists(full):
            with core._real_open(full, "rb") as f:
                if f.read() != indexed.get(p):
                    processed.append(p)
    ci = ob.canon_index(sim.db_path)
    assert ci is not None
    by_page = _idx.index_notes_by_page(ci)
    cf = ob.canon_files(files_zdir, sim.day, processed)
    S: dict[tuple, dict] = {}
    new: set = set()
    for p in processed:
        old = by_page.get(p, [])
        old_by_zid: dict[str, dict] = {}
        for n in old:
            if n["zid"] is not None:
                if n["zid"] in old_by_zid:
                    return None
                old_by_zid[n["zid"]] = n
        cur = [n for k, n in sorted(cf["notes"].items()) if k[0] == p]
        zids = [n["zid"] for n in cur if n["zid"]]
        if len(zids) != len(set(zids)):
            return None
        for n in cur:
            key = (p, n["line"])
            if n["zid"] is None:
                new.add(key)
                continue
            o = old_by_zid.get(n["zid"])
            if o is None:
                rec.probe("note-with-zid-unknown-to-this-page-index", 1)
                continue
            changed = (n["body"], n["status"], n["priority"]) != (o["body"], o["status"], o["priority"])
            if changed and n["modify"] != today:
                S[key] = {"old": o, "cur": n}
                if n["body"] == o["body"]:
                    rec.probe("todo-state-only-change")
                if "\n" in n["body"]:
                    rec.probe("multi-line-item-stamped")
            elif changed:
                rec.probe("stamp-skipped-already-dated-today")
            if changed and o["create"] == today:
                rec.probe("edit-on-creation-day")
    return {"S": S, "new": new, "processed": processed, "cf": cf}


def expected_first_line(line: str, zid: str, today_short: str) -> Optional[str]:
    """`YYMMDD ` inserted directly before the ZID or replacing the 6-digit date there."""
    idx = line.find(zid)
    if idx < 0:
        return None
    head, tail = line[:idx], line[idx:]
    words = head.split(" ")
    # head ends with a space -> last element is ''
    if len(words) >= 2 and words[-1] == "" and _SHORT.match(words[-2]):
        words[-2] = today_short
        return " ".join(words) + tail
    return head + today_short + " " + tail


def _norm_head(line: str, zid: str) -> str:
    """The statement pins WHERE the date goes (in front of the ZID), not how many spaces separate
    prefix, date and ZID: runs of spaces before the ZID count as one; from the ZID on the line is
    compared byte for byte."""
    idx = line.find(zid)
    if idx < 0:
        return line
    return re.sub(r" +", " ", line[:idx]) + line[idx:]


def check_after(sim: core.Sim, before_files: dict, model: dict, rec: hist.Rec, step: int, scratch: str, tick_from: Optional[int] = None) -> Optional[dict]:
    """tick_from = the day the command started on when midnight struck during it:
    "today" is then either of two days.  The relaxation is narrow: a stamp may carry
    either day (but file and index must carry the SAME one), and notes already dated
    one of the two days may or may not be in the stamp set; everything else is as strict
    as without the fault."""
    today = _real_dt.date.fromordinal(sim.day)
    days = [today] if tick_from is None else [_real_dt.date.fromordinal(tick_from), today]
    shorts = [d.strftime("%y%m%d") for d in days]
    either_day = {d.isoformat() for d in days} if tick_from is not None else set()
    after_files = {k: v.decode("utf-8") for k, v in ob.read_files(sim.zdir, (".zo",)).items()}
    S, new = model["S"], model["new"]
    ci = ob.canon_index(sim.db_path)
    assert ci is not None
    for rel in sorted(set(before_files) | set(after_files)):
        b, a = before_files.get(rel), after_files.get(rel)
        if b is None or a is None:
            return hist.viol("page-set-changed-by-reindex", "-", step=step, page=rel)
        if a == b:
            bl = al = []
        else:
            bl, al = b.split("\n"), a.split("\n")
            if len(bl) != len(al):
                return hist.viol("line-count-changed", "-", step=step, page=rel, before=b, after=a)
        for i, (x, y) in enumerate(zip(bl, al)):
            if x == y:
                continue
            key = (rel, i + 1)
            if key in S:
                wants = [expected_first_line(x, S[key]["cur"]["zid"], sh) for sh in shorts]
                if _norm_head(y, S[key]["cur"]["zid"]) not in [_norm_head(w, S[key]["cur"]["zid"]) for w in wants if w is not None]:
                    return hist.viol("stamp-rewrite-wrong", _stamp_cause(S[key]), step=step, page=rel, line=i + 1, before=x, after=y, expected=wants)
                hw = x[: x.find(S[key]["cur"]["zid"])].split(" ")
                if len(hw) >= 2 and hw[-1] == "" and _SHORT.match(hw[-2]):
                    rec.probe("stamp-replaced")
                else:
                    rec.probe("stamp-inserted")
            elif key in new:
                clause, _info = zid_insertion_problem(x, y)
                if clause:
                    return hist.viol("new-note-line-rewrite-wrong", clause + "|" + "+".join(sorted(oracles.first_line_shape(x))), step=step, page=rel, line=i + 1, before=x, after=y)
                rec.probe("zid-added-during-reindex")
            else:
                cur = model["cf"]["notes"].get(key)
                if cur is not None and cur["zid"] and cur["modify"] in either_day and y in [expected_first_line(x, cur["zid"], sh) for sh in shorts]:
                    rec.probe("note-dated-on-tick-day-restamped")
                    continue  # "already dated today" is ambiguous across the tick
                cause = "not-a-note-first-line" if cur is None else "note-not-in-stamp-set"
                return hist.viol("unexpected-line-change", cause, step=step, page=rel, line=i + 1, before=x, after=y)
    # every member of S got stamped (file) and is dated today (index)
    for key, info in sorted(S.items()):
        rel, line = key
        x = before_files[rel].split("\n")[line - 1]
        y = after_files[rel].split("\n")[line - 1]
        wants = {_norm_head(expected_first_line(x, info["cur"]["zid"], d.strftime("%y%m%d")) or "", info["cur"]["zid"]): d for d in days}
        y_raw, y = y, _norm_head(y, info["cur"]["zid"])
        if y not in wants:
            if info["cur"]["modify"] in either_day and y_raw == x:
                continue  # dated on the other side of the tick: legitimately not stamped
            return hist.viol("stamp-missing-in-file", _stamp_cause(info), step=step, page=rel, line=line, before=x, after=y_raw, expected=sorted(wants))
        n = ci["notes"].get(key)
        if n is None or n["modify"] != wants[y].isoformat():
            cause = _stamp_cause(info) + ("|file-and-index-carry-different-days" if n is not None and n["modify"] in either_day else "")
            return hist.viol("stamp-missing-in-index", cause, step=step, key=list(key), index=n, file_line=y_raw)
    pages_with_both = {k[0] for k in S} & {k[0] for k in new}
    rec.probe("new-and-edited-note-on-one-page", len(pages_with_both))
    # file and index agree after stamping (restricted to processed pages + global ZID sanity)
    problems = [p for p in oracles.agreement_problems(sim) if _concerns(p, set(model["processed"]))]
    if problems:
        p = problems[0]
        key = tuple(p.get("key") or ())
        cause = _stamp_cause(S[key]) if key in S else ("new-note" if key in new else "untouched-note")
        return hist.viol("after-stamping:" + p["clause"], cause, step=step, problem=p)
    return None


def _concerns(problem: dict, pages: set) -> bool:
    if "keys" in problem:
        # a ZID present twice: only a verdict when every page involved was processed
        return all(k[0] in pages for k in problem["keys"])
    key = problem.get("key")
    if key:
        return key[0] in pages
    if "page" in problem:
        return problem["page"] in pages
    return True


def _drop_long(line: str) -> str:
    m = re.match(r"^([-ox~<>] +(?:P\d +)?)(\d{4}-\d{2}-\d{2}) ", line)
    return line[: m.start(2)] + line[m.end(0) :] if m else line


def _stamp_cause(info: dict) -> str:
    o, n = info["old"], info["cur"]
    old_st = bool(_SHORT.match(o["body"].split(" ")[0]))
    cur_st = bool(_SHORT.match(n["body"].split(" ")[0]))
    return f"index-{'stamped' if old_st else 'unstamped'}/file-{'stamped' if cur_st else 'unstamped'}"


###############################################################################
# execution
###############################################################################


def execute(case: dict, scratch: str) -> dict:
    rec = hist.Rec()
    sim = hist.materialize(scratch, case)
    o = sim.run({"op": "create"})
    rec.proc({"op": "create"}, None, o, sim)
    if o.status != "ok":
        rec.stat("skipped:initial-create-failed")
        return rec.result()
    if oracles.agreement_problems(sim):
        rec.stat("skipped:initial-create-not-in-agreement")
        return rec.result()
    indexed: dict[str, bytes] = dict(ob.read_files(sim.zdir, (".zo",)))
    for i, st in enumerate(case["steps"]):
        op = st["op"]
        if op == "day":
            sim.day += st["days"]
            rec.stat("days", st["days"])
            rec.note("day", days=st["days"])
            rec.probe("fault:clock-set-back", int(st["days"] < 0))
            continue
        if op == "user":
            reports = user.apply_edits(sim.zdir, st["edits"], sim.day)
            rec.note("user", reports=reports)
            for e, r in zip(st["edits"], reports):
                if r.get("applied"):
                    rec.stat("edits_applied")
                    if e["e"] == "stamp_remove":
                        rec.probe("user-removed-stamp")
                    if e["e"] == "stamp_set":
                        rec.probe("user-hand-edited-stamp")
                    if e["e"] == "cutpaste":
                        rec.probe("note-pasted-with-foreign-zid")
                    if e["e"] in ("title_edit", "section_edit"):
                        rec.probe("header-only-edit")
                else:
                    rec.stat("edits_discarded")
            continue
        if op == "reindex":
            paths = _idx.resolve_paths(sim, st.get("paths"))
            if st.get("paths") and not paths:
                continue
            real = {"op": "reindex", "paths": paths} if paths else {"op": "reindex"}
            candidates = paths or ob.list_pages(sim.zdir)
            model = predict(sim, sim.zdir, candidates, rec, indexed)
            before_files = {k: v.decode("utf-8") for k, v in ob.read_files(sim.zdir, (".zo",)).items()}
            tick_from = None
            if st.get("tick") is not None:
                fault = {"kind": "midnight-tick", "after": st["tick"]}
                o = sim.run(real, fault=fault)
                if o.clock_reads > st["tick"]:
                    tick_from = sim.day
                    sim.day += 1  # the day has changed while the command ran
                    rec.probe("fault:midnight-tick")
                    rec.stat("days", 1)
                rec.proc(real, fault, o, sim)
            else:
                o = sim.run(real)
                rec.proc(real, None, o, sim)
        elif op == "edit":
            paths = _idx.resolve_paths(sim, st.get("paths"))
            if not paths:
                continue
            real = {"op": "edit", "paths": paths, "sessions": st["sessions"]}
            # the edits happen while zorg waits for the editor: predict on a
            # copy of the files with the same edits applied
            shadow = sim.clone(os.path.join(scratch, "shadow"))
            user.apply_edits(shadow.zdir, st["sessions"][0]["edits"], sim.day)
            bad = _idx.all_valid(shadow)
            if bad:
                shadow.destroy()
                continue
            model = predict(sim, shadow.zdir, ob.list_pages(shadow.zdir), rec, indexed)
            candidates = ob.list_pages(shadow.zdir)
            before_files = {k: v.decode("utf-8") for k, v in ob.read_files(shadow.zdir, (".zo",)).items()}
            shadow.destroy()
            tick_from = None
            o = sim.run(real)
            rec.proc(real, None, o, sim)
            rec.probe("edit-session")
        else:
            continue
        if o.status != "ok":
            return rec.result(hist.viol("reindex-failed", _idx.exc_cause(o), step=i, op=real, msg=(o.exc or {}).get("msg")))
        now = ob.read_files(sim.zdir, (".zo",))
        for p in candidates:
            if p in now:
                indexed[p] = now[p]
        if not real.get("paths"):
            indexed = dict(now)  # a plain run covers the whole directory (and forgets deleted pages)
        if model is None:
            rec.stat("steps-outside-model:duplicate-zid-on-page")
            continue
        rec.stat("stamp-set-size", len(model["S"]))
        rec.stat("reindex-steps-checked")
        rec.probe("reindex-with-empty-stamp-set", int(not model["S"] and bool(model["processed"])))
        v = check_after(sim, before_files, model, rec, i, scratch, tick_from)
        if v:
            return rec.result(v)
        # an immediately following plain reindex stamps nothing
        problems = oracles.noop_reindex_problems(sim, os.path.join(scratch, "noop"))
        if not real.get("paths"):
            if problems:
                p = problems[0]
                return rec.result(hist.viol("second-reindex:" + p["clause"], "-", step=i, problem=p))
        else:
            # after an explicit-path run, the plain run may legitimately process
            # pages that were not listed; only the listed pages must be quiet
            listed = set(real["paths"])
            problems = [p for p in problems if p.get("page") in listed]
            if problems:
                p = problems[0]
                return rec.result(hist.viol("second-reindex:" + p["clause"], "listed-page", step=i, problem=p))
    return rec.result()
