"""C06 -- incremental reindexing is equivalent to rebuilding the index.

Profile `index-history` with the simulated user and the day-change fault.
Reference model: `db create` on a copy of the directory (stores included).
"""

from __future__ import annotations

import os
import random
from typing import Any, Optional

from .. import core, gen, history as hist, observers as ob, oracles, user
from . import _idx

ID = "C06"
LEVEL = "exploration"
RUNS = {"quick": 220, "thorough": 8000}
WALL_CAP = {"quick": 280, "thorough": 1500}
RULE = (
    "case = seeded world + db create + 3-9 steps mixing user edit batches (word/bullet/kind/priority/"
    "stamp edits, insert/delete/cut-paste notes, header/section edits, add/delete/mv pages), db reindex "
    "with and without explicit paths, edit sessions through the editor stub (with keep-alive restarts), "
    "zorg file rename, zorg note move, day changes; ends with a plain db reindex. After every plain "
    "reindex the canonical index dump, a fixed 21-query panel and 5 seeded queries are compared with a db create run on a "
    "copy. non-trivial = at least one reach probe fired (page deleted/renamed, note moved between "
    "pages, orphan tag, section removed, explicit-path reindex then plain, later-day reindex, >=2 "
    "pages changed at once, edit session); distinct = distinct final world-state digest"
)


def gen_case(rng: random.Random, tier: str) -> dict:
    world = gen.gen_world(rng, pages=(1, 4), max_items=6, allow_rare=False)
    feats = world["features"]
    steps: list[dict] = []
    for _ in range(rng.randint(3, 9)):
        x = rng.random()
        if x < 0.45:
            steps.append(_idx.gen_user_step(rng, feats))
        elif x < 0.60:
            steps.append({"op": "reindex"})
            if rng.random() < 0.1:
                steps[-1]["tick"] = rng.randrange(0, 6)  # fault: midnight strikes during the command
        elif x < 0.70:
            steps.append({"op": "reindex", "paths": {"pick": [rng.randrange(1000) for _ in range(rng.randint(1, 2))]}})
        elif x < 0.78:
            sessions = []
            for _ in range(rng.randint(1, 2)):
                sessions.append({"edits": [gen.gen_edit(rng, feats) for _ in range(rng.randint(1, 2))]})
            if len(sessions) > 1:
                sessions[0]["keep_alive"] = rng.choice(["", "KEEP"])
            steps.append({"op": "edit", "paths": {"pick": [rng.randrange(1000)]}, "sessions": sessions})
        elif x < 0.84:
            steps.append({"op": "rename", "src": rng.randrange(1000), "dst": rng.choice(gen.PAGE_NAMES) + "r" + str(rng.randrange(3)), "back": rng.random() < 0.35})
        elif x < 0.90:
            steps.append({"op": "move", "note": rng.randrange(1000), "dest": rng.randrange(1000), "marker": rng.choice([None, None, "x", "~"])})
        else:
            steps.append({"op": "day", "days": rng.choice([1, 1, 2, 31, 366, -1, -2])})  # negative: the clock is set back
    if rng.random() < 0.3:
        # a page goes away, the index forgets it, and it comes back byte-identical
        pg = rng.randrange(1000)
        if rng.random() < 0.5:
            trip = [{"op": "user", "edits": [{"e": "page_delete", "page": pg}]}, {"op": "reindex"}, {"op": "user", "edits": [{"e": "page_restore", "page": 0}]}]
        else:
            nm = rng.choice(gen.PAGE_NAMES) + "t" + str(rng.randrange(3))
            trip = [{"op": "rename", "src": pg, "dst": nm}, {"op": "reindex"}, {"op": "rename", "src": 0, "dst": nm, "back": True}]
        if rng.random() < 0.4:
            trip.insert(2, {"op": "day", "days": 1})
        at = rng.randrange(len(steps) + 1)
        steps[at:at] = trip
    steps.append({"op": "reindex"})
    return {"world": world, "steps": steps, "day0": core.EPOCH_DAY + rng.randrange(0, 300)}


def describe(case: dict) -> Any:
    return {"files": case["world"]["files"], "steps": case["steps"], "day0": case["day0"]}


def execute(case: dict, scratch: str) -> dict:
    rec = hist.Rec()
    sim = hist.materialize(scratch, case)
    o = sim.run({"op": "create"})
    rec.proc({"op": "create"}, None, o, sim)
    if o.status != "ok":
        rec.stat("skipped:initial-create-failed")
        return rec.result()
    facts = {"deleted": set(), "renamed": set(), "paths_reindex_pending": False, "changed_pages": set()}
    for i, st in enumerate(case["steps"]):
        op = st["op"]
        if op == "day":
            sim.day += st["days"]
            rec.stat("days", st["days"])
            rec.note("day", days=st["days"])
            facts["day_changed"] = True
            rec.probe("fault:clock-set-back", int(st["days"] < 0))
            continue
        if op == "user":
            reports = user.apply_edits(sim.zdir, st["edits"], sim.day)
            rec.note("user", reports=reports)
            _edit_facts(reports, facts, rec)
            continue
        if op == "reindex":
            paths = _idx.resolve_paths(sim, st.get("paths"))
            if st.get("paths") and not paths:
                continue
            real = {"op": "reindex", "paths": paths} if paths else {"op": "reindex"}
            if not paths:
                todo = _idx.pages_to_process(sim, ob.list_pages(sim.zdir))
                rec.probe("two-or-more-pages-changed-in-one-reindex", int(len(todo) >= 2))
                rec.probe("plain-reindex-after-explicit-path-reindex", int(facts["paths_reindex_pending"]))
                rec.probe("reindex-on-a-later-day", int(bool(facts.get("day_changed"))))
            fault = {"kind": "midnight-tick", "after": st["tick"]} if st.get("tick") is not None else None
            o = sim.run(real, fault=fault)
            if fault and o.clock_reads > st["tick"]:
                sim.day += 1
                rec.probe("fault:midnight-tick")
                rec.stat("days", 1)
            rec.proc(real, fault, o, sim)
            if o.status != "ok":
                return rec.result(hist.viol("reindex-failed", _idx.exc_cause(o), step=i, op=real, msg=(o.exc or {}).get("msg")))
            if paths:
                facts["paths_reindex_pending"] = True
                rec.probe("explicit-path-reindex")
            else:
                facts["paths_reindex_pending"] = False
                v = compare_with_rebuild(sim, scratch, rec, facts, i)
                if v:
                    return rec.result(v)
            continue
        if op == "edit":
            paths = _idx.resolve_paths(sim, st.get("paths"))
            if not paths:
                continue
            real = {"op": "edit", "paths": paths, "sessions": st["sessions"]}
            o = sim.run(real)
            rec.proc(real, None, o, sim)
            rec.probe("edit-session")
            rec.probe("edit-session-with-keep-alive-restart", int(any("keep_alive" in s for s in st["sessions"])))
            if o.status != "ok":
                return rec.result(hist.viol("edit-failed", _idx.exc_cause(o), step=i, msg=(o.exc or {}).get("msg")))
            bad = _idx.all_valid(sim)
            if bad:
                rec.stat("history-cut:edit-session-left-invalid-page")
                return rec.result()
            v = compare_with_rebuild(sim, scratch, rec, facts, i)
            if v:
                return rec.result(v)
            continue
        if op == "rename":
            pages = ob.list_pages(sim.zdir)
            if not pages:
                continue
            src = pages[st["src"] % len(pages)]
            dst = st["dst"]
            if st.get("back") and facts.get("last_rename") and facts["last_rename"][1] + ".zo" in pages:
                # rename a page back to the name it had before (possibly after it was reindexed away)
                dst, src = facts["last_rename"][0], facts["last_rename"][1] + ".zo"
                rec.probe("page-renamed-back-to-its-old-name")
            if os.path.exists(os.path.join(sim.zdir, dst + ".zo")):
                continue
            real = {"op": "rename", "src": src[:-3], "dst": dst}
            o = sim.run(real)
            rec.proc(real, None, o, sim)
            if o.status == "ok":
                rec.probe("page-renamed-by-file-rename")
                facts["renamed"].add(src)
                facts["last_rename"] = (src[:-3], dst)
            continue
        if op == "move":
            ci = ob.canon_index(sim.db_path)
            pages = ob.list_pages(sim.zdir)
            keys = sorted(k for k, n in ci["notes"].items() if n["zid"]) if ci else []
            if not keys or not pages:
                continue
            n = ci["notes"][keys[st["note"] % len(keys)]]
            dest = pages[st["dest"] % len(pages)]
            if dest == n["page"]:
                continue
            real = {"op": "move", "zid": n["zid"], "dest": dest, "marker": st.get("marker")}
            o = sim.run(real)
            rec.proc(real, None, o, sim)
            bad = _idx.all_valid(sim, [p for p in (dest, n["page"]) if os.path.exists(os.path.join(sim.zdir, p))])
            if bad or o.status != "ok":
                rec.stat("history-cut:note-move-failed-or-left-invalid-page")
                return rec.result()
            rec.probe("note-moved-by-note-move")
            continue
    return rec.result()


def _edit_facts(reports: list[dict], facts: dict, rec: hist.Rec) -> None:
    for r in reports:
        if not r.get("applied"):
            rec.stat("edits_discarded")
            continue
        rec.stat("edits_applied")
        if "deleted" in r:
            facts["deleted"].add(r["deleted"])
            rec.probe("page-deleted")
        if "restored" in r:
            rec.probe("deleted-page-restored-unchanged")
        if "renamed" in r:
            facts["renamed"].add(r["renamed"][0])
            rec.probe("page-renamed-by-mv")
        if len(r.get("pages", [])) == 2 and "renamed" not in r:
            rec.probe("note-cut-and-pasted-between-pages")


def compare_with_rebuild(sim: core.Sim, scratch: str, rec: hist.Rec, facts: dict, step: int) -> Optional[dict]:
    twin = sim.clone(os.path.join(scratch, "rebuild"))
    try:
        before = ob.read_files(twin.zdir, (".zo",))
        o = twin.run({"op": "create"})
        rec.proc({"op": "create", "on": "copy"}, None, o)
        if o.status != "ok":
            rec.stat("rebuild-failed")
            return None
        rec.stat("rebuild-comparisons")
        ci_h = ob.canon_index(sim.db_path)
        ci_r = ob.canon_index(twin.db_path)
        assert ci_h is not None and ci_r is not None
        files_now = set(ob.list_pages(sim.zdir))
        # probes on the history index
        for d in ob.diff_canon(ci_h, ci_r):
            key = d["key"]
            page_present = key[0] in files_now
            if d["kind"] == "only-in-index":
                cause = "page-present" if page_present else "page-absent-from-directory"
                return hist.viol("history-has-note-rebuild-lacks", cause, step=step, diff=d)
            if d["kind"] == "only-in-files":
                return hist.viol("rebuild-has-note-history-lacks", "page-present" if page_present else "page-absent", step=step, diff=d)
            return hist.viol("note-field-differs:" + d["field"], _field_cause(d, ci_h, ci_r), step=step, diff=d)
        for p in sorted(set(ci_h["pages"]) | set(ci_r["pages"])):
            if ci_h["pages"].get(p) != ci_r["pages"].get(p):
                cause = "page-absent-from-directory" if p not in files_now else "page-present"
                return hist.viol("page-row-differs", cause, step=step, page=p, history=ci_h["pages"].get(p), rebuild=ci_r["pages"].get(p))
        if ci_h["dup_notes"] or ci_h["dup_pages"]:
            return hist.viol("duplicates-in-history-index", "-", step=step, notes=ci_h["dup_notes"], pages=ci_h["dup_pages"])
        after = ob.read_files(twin.zdir, (".zo",))
        if before != after:
            return hist.viol("rebuild-had-to-change-files", "-", step=step, pages=[p for p in after if after[p] != before.get(p)])
        panel = _idx.QUERY_PANEL + _idx.seeded_queries(random.Random((sim.seed << 8) ^ step), ob.list_pages(sim.zdir))
        qa = sim.run({"op": "query", "queries": panel})
        qb = twin.run({"op": "query", "queries": panel})
        rec.proc({"op": "query", "n": len(panel)}, None, qa)
        rec.proc({"op": "query", "n": len(panel), "on": "copy"}, None, qb)
        if qa.status != qb.status:
            return hist.viol("query-panel-outcome-differs", f"{qa.status}/{qb.status}", step=step, a=qa.brief(), b=qb.brief())
        if qa.status == "ok":
            for q, ra, rb in zip(panel, qa.ret, qb.ret):
                if isinstance(ra, dict) and isinstance(rb, dict):
                    rec.stat("queries-failing-on-both:" + ra.get("exc", "?"))
                    continue
                if ra != rb:
                    return hist.viol("query-answer-differs", "-", step=step, query=q, history=ra, rebuild=rb)
                rec.stat("queries-compared")
        else:
            rec.stat("query-panel-failed-on-both")
        return None
    finally:
        twin.destroy()


def _field_cause(d: dict, ci_h: dict, ci_r: dict) -> str:
    key = tuple(d["key"])
    h, r = ci_h["notes"][key], ci_r["notes"][key]
    if d["field"] == "body":
        a, b = str(d["index"]), str(d["files"])
        if " ".join(a.split()) == " ".join(b.split()):
            return "whitespace-only"
        z = r.get("zid")
        if z and z in b and z not in a:
            return "history-body-lacks-own-zid"
        return "other"
    return "-"
