"""C14 -- `file rename` retargets every link to the page and nothing else.

Profile `ops-conformance`: chains of renames over directories whose link
texts are prefixes / suffixes / path-extensions / anchors of each other,
interleaved with reindex and user edits; each rename is checked byte for byte
against an independent link-rewriting reference model.
"""

from __future__ import annotations

import os
import random
import re
from typing import Any, Optional

from .. import core, gen, history as hist, observers as ob, user

ID = "C14"
LEVEL = "exploration"
RUNS = {"quick": 1200, "thorough": 40000}
WALL_CAP = {"quick": 240, "thorough": 1500}
EVALS_FROM_STATS = True
RULE = (
    "case = seeded directory of .zo pages, .zot templates and .zoq query pages in sub-directories whose "
    "page names overlap (a, ab, b, a1, a_b, x/a, a/b, ...) and whose bodies/headers/templates/queries "
    "contain [[name]] and [[name#anchor]] links to all of them (and look-alikes such as [[x/a]], [[ab]], "
    "[a], [[a]x]]), then 1-3 chained zorg file rename steps (A->B, B->C, back; names with and without the "
    ".zo extension) interleaved with db create/reindex and user edits. evaluations = renames judged; "
    "non-trivial = the renamed page was linked from >=1 file, an anchor link was retargeted, a look-alike "
    "link had to stay, a template or query page was rewritten, chained rename; distinct = distinct final "
    "directory digests"
)

NAMES = [
    "a", "ab", "b", "a1", "a_b", "ba", "x/a", "x/ab", "a/b", "y/z/a", "inbox", "in",
    # dots and regex metacharacters in names, next to names they would match as patterns
    "rel1.0/plan", "rel1-0/plan", "rel100/plan", "v1.2", "v1x2", "c++", "c", "a(b)", "ab)", "a$", "a|b", "a*",
]  # fmt: skip
LINK = re.compile(r"\[\[([^\]\[#\s]+)(#[^\]\[\s]*)?\]\]")


def _link_words(rng: random.Random, names: list[str]) -> list[str]:
    out = []
    for _ in range(rng.randint(0, 4)):
        n = rng.choice(names)
        x = rng.random()
        if x < 0.55:
            out.append(f"[[{n}]]")
        elif x < 0.8:
            out.append(f"[[{n}#{rng.choice(gen.PLAIN)}]]")
        elif x < 0.85:
            out.append(f"([[{n}]]),")
        elif x < 0.9:
            out.append(f"[{n}]")
        elif x < 0.95:
            out.append(f"[[{n}x]]")
        else:
            out.append(f"[[z{n}]]")
    return out


def gen_case(rng: random.Random, tier: str) -> dict:
    names = rng.sample(NAMES, k=rng.randint(3, 7))
    link_names = names + rng.sample(NAMES, k=2)
    files: dict[str, str] = {}
    for n in names:
        lines = [f"# Page {n.replace('/', ' ')} " + " ".join(_link_words(rng, link_names)), "# " + " ".join([rng.choice(gen.PLAIN)] + _link_words(rng, link_names)), ""]
        for _ in range(rng.randint(0, 4)):
            words = [rng.choice(gen.PLAIN) for _ in range(rng.randint(1, 3))] + _link_words(rng, link_names)
            rng.shuffle(words)
            lines.append(rng.choice("-ox") + " " + " ".join([rng.choice(gen.PLAIN)] + words))
            if rng.random() < 0.3:
                lines.append("  * " + " ".join([rng.choice(gen.PLAIN)] + _link_words(rng, link_names)))
        if rng.random() < 0.4:
            lines += ["", "################################ Sec " + " ".join(_link_words(rng, link_names)), "- " + " ".join([rng.choice(gen.PLAIN)] + _link_words(rng, link_names))]
        files[n + ".zo"] = "\n".join(lines) + "\n"
    extra_names: list[str] = []
    if rng.random() < 0.5:
        # a template / query page that shares its stem with a page, and links to both
        stem = rng.choice(names)
        ext = rng.choice([".zot", ".zoq"])
        extra_names.append(stem + ext)
        link_names = link_names + [stem + ext, stem + ext]
        files[stem + ext] = ("# Stem twin\n#\n# ^ = " + " ".join(_link_words(rng, link_names) or ["x"]) + "\n\n## twin\n\n- " + " ".join(["note"] + _link_words(rng, link_names)) + "\n") if ext == ".zot" else (f"# S note W [[{stem}]] O none\n#\n# SAVED QUERY GENERATED ON 2024-01-01 AT 12:00:00.\n\n- 230101#0z old [[{stem}{ext}]] " + " ".join(_link_words(rng, link_names)) + "\n")
        # pages written before this point do not link to the twin yet: add a few links
        for n in rng.sample(names, k=min(2, len(names))):
            files[n + ".zo"] = files[n + ".zo"].rstrip("\n") + "\n- see " + " ".join(_link_words(rng, [stem + ext, stem, stem + ext]) or [f"[[{stem}{ext}]]"]) + f" [[{stem}{ext}]] [[{stem}]]\n"
    for i in range(rng.randint(0, 2)):
        files[f"tmpl/t{i}.zot"] = "# Template\n#\n# ^ = " + " ".join(_link_words(rng, link_names) or ["x"]) + "\n\n## {{ name }}\n## ^ = " + " ".join(_link_words(rng, link_names) or ["x"]) + "\n\n- " + " ".join(["note"] + _link_words(rng, link_names)) + "\n"
    for i in range(rng.randint(0, 2)):
        n = rng.choice(link_names)
        files[f"zoq/q{i}.zoq"] = f"# S note W [[{n}]] O none\n#\n# SAVED QUERY GENERATED ON 2024-01-01 AT 12:00:00.\n\n- 230101#0{i} old result [[{n}]] " + " ".join(_link_words(rng, link_names)) + "\n"
    if rng.random() < 0.3:
        files["readme.md"] = "not a zorg file [[" + rng.choice(names) + "]]\n"
    if rng.random() < 0.3:
        # bystanders whose names nearly are .zo / .zot / .zoq files (editor backups, swap
        # files, look-alike extensions): full of links, and no rename may touch a byte of them
        for _ in range(rng.randint(1, 2)):
            stem = rng.choice(names)
            rel = rng.choice([stem + ".zo~", stem + ".zoo", stem + ".zo.bak", stem + ".zotx", stem + ".zoq1", stem + ".zo_", "x/" + stem.replace("/", "_") + ".zox"])
            files[rel] = "# Backup " + " ".join([f"[[{n}]] [[{n}#sec]]" for n in rng.sample(link_names, k=min(3, len(link_names)))]) + "\n\n- 230101#2z kept " + " ".join(_link_words(rng, link_names)) + "\n"
    for rel in sorted(files):
        if rng.random() < 0.05:
            files[rel] = files[rel].replace("\n", "\r\n")  # Windows line ends must survive
    steps: list[dict] = []
    for _ in range(rng.randint(1, 3)):
        if rng.random() < 0.3:
            steps.append(rng.choice([{"op": "create"}, {"op": "reindex"}]))
        if rng.random() < 0.25:
            steps.append({"op": "user", "edits": [{"e": "word_add", "page": rng.randrange(1000), "item": rng.randrange(1000), "pos": rng.randrange(1000), "word": rng.choice(_link_words(rng, link_names) or ["w"])}]})
        steps.append(
            {
                "op": "rename",
                "src": rng.randrange(1000),
                "dst": rng.choice(["n", "nb", "a", "b", "a2", "x/n", "x/a", "new/dir/n", "ab", "rel1.0/roadmap", "v2.0", "n+1", "x/n(1)"]),
                "src_ext": rng.random() < 0.25,
                "dst_ext": rng.random() < 0.25,
                "back": rng.random() < 0.2,
                # rename a template / query page instead of a .zo page
                "non_zo": rng.random() < 0.25,
            }
        )
    world = {"files": files, "dirent": rng.choice(["sorted", "reversed", "shuffled"])}
    day0 = core.EPOCH_DAY + rng.randrange(0, 300)
    # where the notes directory lives and what else lives in it: hidden components in its own
    # path, a space, a hidden sub-directory with pages that link like all the others
    world["home"] = rng.choice(["org", "org", "org", "org", ".local/share/zorg", ".notes/org", "my notes/org", "org.d/v1.2"])
    if rng.random() < 0.15:
        n = rng.choice(link_names)
        files[".archive/old.zo"] = f"# Archived [[{n}]]\n\n- 230101#1{rng.randrange(10)} kept " + " ".join([f"[[{n}]]"] + _link_words(rng, link_names)) + "\n"
    return {"world": world, "steps": steps, "day0": day0}


def describe(case: dict) -> Any:
    return {"files": case["world"]["files"], "steps": case["steps"]}


def expected_after_rename(files: dict[str, bytes], a: str, b: str, a_file: Optional[str] = None, b_file: Optional[str] = None) -> dict[str, bytes]:
    """Reference model: move the key, retarget exactly the links named `a` (a, b = link
    names; a_file, b_file = the files, by default the .zo pages of those names)."""
    out = {}
    a_file = a_file or a + ".zo"
    b_file = b_file or b + ".zo"
    for rel, data in files.items():
        key = b_file if rel == a_file else rel
        if rel.endswith((".zo", ".zot", ".zoq")):
            text = data.decode("utf-8")

            def sub(m: re.Match) -> str:
                if m.group(1) == a:
                    return f"[[{b}{m.group(2) or ''}]]"
                return m.group(0)

            data = LINK.sub(sub, text).encode("utf-8")
        out[key] = data
    return out


def execute(case: dict, scratch: str) -> dict:
    rec = hist.Rec()
    rec.stats["evaluations"] = 0
    sim = hist.materialize(scratch, case)
    prev: Optional[tuple[str, str]] = None
    for i, st in enumerate(case["steps"]):
        op = st["op"]
        if op in ("create", "reindex"):
            o = sim.run({"op": op})
            rec.proc({"op": op}, None, o, sim)
            continue
        if op == "user":
            user.apply_edits(sim.zdir, st["edits"], sim.day)
            continue
        pages = ob.list_pages(sim.zdir)
        if not pages:
            continue
        others = ob.list_pages(sim.zdir, (".zot", ".zoq"))
        # every rename as (link name A, link name B, file A, file B, argument A, argument B)
        jobs: list[tuple[str, str, str, str, str, str]] = []
        if st.get("non_zo") and others and not (st.get("back") and prev):
            src_file = others[st["src"] % len(others)]
            ext = "." + src_file.rsplit(".", 1)[-1]
            dst_file = st["dst"] + ext
            # link names of non-.zo files keep their extension; so do the arguments
            jobs.append((src_file, dst_file, src_file, dst_file, src_file, dst_file))
            rec.probe("non-zo-file-renamed")
        else:
            for a, b in _pairs(st, pages, prev):
                # a name that contains a dot anywhere must be given with its .zo extension
                # (zorg takes any dotted argument as already having one)
                sa = a + ".zo" if (st.get("src_ext") or "." in a) else a
                sb = b + ".zo" if (st.get("dst_ext") or "." in b) else b
                jobs.append((a, b, a + ".zo", b + ".zo", sa, sb))
                rec.probe("name-with-dot-or-regex-metacharacter", int(bool(re.search(r"[.+()$|*?^]", a))))
        for a, b, a_file, b_file, sa, sb in jobs:
            before = ob.read_all_files(sim.zdir)
            if b_file in before or a == b or a_file not in before:
                continue
            real = {"op": "rename", "src": sa, "dst": sb}
            o = sim.run(real)
            rec.proc(real, None, o, sim)
            after = ob.read_all_files(sim.zdir)
            if o.status != "ok":
                if not os.path.isdir(os.path.dirname(os.path.join(sim.zdir, b_file))):
                    rec.probe("rename-into-missing-directory-refused")
                    if after != before:
                        return rec.result(hist.viol("failed-rename-changed-files", "-", step=i, op=real))
                    continue
                exc = o.exc or {}
                return rec.result(hist.viol("rename-raised", f"{exc.get('type')}", step=i, op=real, msg=exc.get("msg")))
            rec.stats["evaluations"] += 1
            want = expected_after_rename(before, a, b, a_file, b_file)
            _probes(rec, before, want, a, prev)
            for rel in sorted(set(want) | set(after)):
                if want.get(rel) != after.get(rel):
                    cause = _cause(rel, before, a, b, want, after)
                    return rec.result(
                        hist.viol("file-differs-from-model", cause, step=i, op=real, file=rel, expected=_t(want.get(rel)), actual=_t(after.get(rel)), before=_t(before.get(rel)))
                    )
            prev = (a, b)
    rec.states.append(hist.state_digest(sim))
    return rec.result()


def _pairs(st: dict, pages: list[str], prev: Optional[tuple[str, str]]) -> list[tuple[str, str]]:
    if st.get("back") and prev and prev[1] + ".zo" in pages:
        return [(prev[1], prev[0])]
    a = pages[st["src"] % len(pages)][:-3]
    return [(a, st["dst"])]


def _t(b: Optional[bytes]) -> Optional[str]:
    return None if b is None else b.decode("utf-8", "replace")


def _cause(rel: str, before: dict, a: str, b: str, want: dict, after: dict) -> str:
    if rel not in after:
        return "file-missing"
    if rel not in want:
        return "unexpected-file"
    ext = rel.rsplit(".", 1)[-1]
    return f"content:{ext}"


def _probes(rec: hist.Rec, before: dict, want: dict, a: str, prev: Optional[tuple[str, str]]) -> None:
    linked = 0
    for rel, data in before.items():
        if not rel.endswith((".zo", ".zot", ".zoq")):
            continue
        text = data.decode("utf-8")
        names = [(m.group(1), m.group(2)) for m in LINK.finditer(text)]
        if any(n == a for n, _ in names):
            linked += 1
            rec.probe("rewritten:" + rel.rsplit(".", 1)[-1])
        if any(n == a and anc for n, anc in names):
            rec.probe("anchor-link-retargeted")
        if any(n != a and (n.startswith(a) or n.endswith(a) or a in n) for n, _ in names):
            rec.probe("look-alike-link-must-stay")
    rec.probe("renamed-page-linked-from-files", int(linked > 0))
    rec.probe("chained-rename", int(prev is not None))
    rec.probe("subdirectory-source", int("/" in a))
    rec.probe("crlf-file-rewritten", int(any(b"\r\n" in d and want.get(r) != d for r, d in before.items())))
