"""C08 -- indexing never crashes on any file and never silently drops a broken one.

Profile `storage-damage`: a valid indexed directory whose stored pages are
damaged between zorg processes, followed by compile / reindex / create [-f] /
repair steps.  Ground truth for "the parser reports a syntax error" is an
independent run of the generated parser with the harness' own error listener
(the ANTLR runtime is the trusted base), fed exactly like zorg feeds it.
"""

from __future__ import annotations

import os
import random
from typing import Any, Optional

from .. import core, gen, history as hist, observers as ob, user
from . import _idx

ID = "C08"
LEVEL = "exploration"
RUNS = {"quick": 200, "thorough": 8000}
WALL_CAP = {"quick": 280, "thorough": 1500}
EVALS_FROM_STATS = True
RULE = (
    "case = seeded valid world + db create, then (i) 6-10 damaged variants of its pages (truncate at "
    "byte/line, substitute printable/control/non-ASCII/NUL byte, drop/duplicate/swap lines, drop header "
    "line, token substitution with grammar look-alikes such as impossible dates, append garbage, empty, "
    "seeded random bytes, arbitrary token soup) compiled by real forked zorg processes, and (ii) a "
    "history of 2-6 steps {damage a stored page, repair it, db reindex [page], db create [-f], day change}. "
    "evaluations = damaged pages compiled + index commands judged; non-trivial = damage that leaves zero "
    "reachable items, damage inside a multi-line item, header truncation, non-ASCII byte, refusal, "
    "whitelisted page, whitelisted page later repaired, ...; distinct = distinct damaged page contents"
)

TOKENS = [
    "[[", "]]", "::", "#", "@", "%", "+", "o", "x", "P1", "P9", "240199", "241939", "2024-19-39", "2024-00-00",
    "2999-13-01", "000000", "999999#00", "240101#0l", "240101#zzz", "http://", "https://a.b/c?d=e#f", "[#", "[@", "[^", "((", "))",
    "'", '"', "$", "^", "|", "\\", "`", "{}", "~", "<", ">", "-", "  * ", "    - ", "      + ", "k::", "::v", "[k:: v]",
    "[k::", "* k::", "240101", "2024-01-01", "1230", "*", "&", "=", "?", "_", "(", ")", ".", "/", ":", ";", "!", ",",
    "################################", "========================", "++++++++++++++++", "--------",
    # calendar edges: lexically fine, may or may not exist
    "230229", "240229", "2023-02-29", "2024-02-29", "210229#AG", "240229#00", "240230", "240431", "2024-04-31", "241301", "240001", "2100-02-29", "000229", "000229#00",
    # property shapes
    "[k::a::b]", "[k:: a::b]", "k::a::b", "[k::]", "[::v]", "[k:: ]", "a::b::c", "k::http://x.y", "[k::http://x.y/z]", "k::[[a]]", "[[a::b]]",
]  # fmt: skip

DAMAGE_KINDS = [
    "truncate_byte", "truncate_line", "subst_printable", "subst_control", "subst_nonascii", "subst_nul",
    "drop_line", "dup_line", "swap_lines", "drop_header", "token_subst", "token_insert", "append_garbage",
    "empty", "random_bytes", "token_soup", "strip_final_nl", "header_only_no_nl", "unprefixed_line", "bare_bullet",
    "note_head_token", "note_head_token",
]  # fmt: skip

HEAD_TOKENS = [
    "230229", "240229", "210229", "000229", "240230", "240431", "240931", "241301", "240001", "240100", "999999", "240199",
    "210229#AG", "230229#00", "240229#00", "240230#01", "241301#zz", "000000#00", "240101#0l", "240101#zzz",
    "2023-02-29", "2024-02-29", "2100-02-29", "2024-04-31", "2024-00-10", "2024-13-01", "P9", "P1", "o", "x", "1230", "2460",
]  # fmt: skip


def damage(data: bytes, kind: str, rng: random.Random) -> bytes:
    lines = data.split(b"\n")
    if kind == "truncate_byte":
        return data[: rng.randrange(0, max(1, len(data)))]
    if kind == "truncate_line":
        return b"\n".join(lines[: rng.randrange(0, max(1, len(lines)))])
    if kind.startswith("subst_") and data:
        i = rng.randrange(len(data))
        ch = {
            "subst_printable": bytes([rng.randrange(0x20, 0x7F)]),
            "subst_control": bytes([rng.choice([0x01, 0x07, 0x09, 0x0B, 0x0C, 0x0D, 0x1B, 0x7F])]),
            "subst_nonascii": rng.choice([b"\xc3\xa9", b"\xe2\x82\xac", b"\xff", b"\xf0\x9f\x98\x80", b"\x80"]),
            "subst_nul": b"\x00",
        }[kind]
        return data[:i] + ch + data[i + 1 :]
    if kind == "drop_line" and len(lines) > 1:
        i = rng.randrange(len(lines))
        return b"\n".join(lines[:i] + lines[i + 1 :])
    if kind == "dup_line" and lines:
        i = rng.randrange(len(lines))
        return b"\n".join(lines[: i + 1] + lines[i:])
    if kind == "swap_lines" and len(lines) > 2:
        i, j = rng.randrange(len(lines)), rng.randrange(len(lines))
        lines[i], lines[j] = lines[j], lines[i]
        return b"\n".join(lines)
    if kind == "drop_header":
        return b"\n".join(lines[1:])
    if kind in ("token_subst", "token_insert"):
        words = data.split(b" ")
        i = rng.randrange(len(words))
        tok = rng.choice(TOKENS).encode()
        if kind == "token_subst":
            nl = b"\n" if words[i].endswith(b"\n") else b""
            words[i] = tok + nl
        else:
            words.insert(i, tok)
        return b" ".join(words)
    if kind == "append_garbage":
        return data + bytes(rng.randrange(1, 256) for _ in range(rng.randint(1, 40)))
    if kind == "empty":
        return b""
    if kind == "random_bytes":
        return bytes(rng.randrange(256) for _ in range(rng.randint(1, 200)))
    if kind == "token_soup":
        out = []
        for _ in range(rng.randint(1, 40)):
            out.append(rng.choice(TOKENS + gen.PLAIN + ["\n", "\n", " ", " "]))
        return (rng.choice(["# t\n\n", "# t\n", "", "\n"]) + " ".join(out) + rng.choice(["\n", ""])).encode()
    if kind == "strip_final_nl":
        return data.rstrip(b"\n")
    if kind == "header_only_no_nl":
        return rng.choice([b"# just a header", b"#", b"# a\n# b", b"foo\n", b"# t\n\nfoo\n", b"# t\nfoo\n", b"\n", b" ", b"# t\n\n"])
    if kind == "unprefixed_line":
        i = rng.randrange(len(lines) + 1)
        return b"\n".join(lines[:i] + [rng.choice([b"stray words here", b"  * orphan bullet", b" leading space", b"O capital", b"-no space"])] + lines[i:])
    if kind == "note_head_token":
        # a date / ZID / priority look-alike in the positions where the compiler
        # interprets such words: directly after the kind character (and priority)
        idx = [i for i, ln in enumerate(lines) if ln[:2] in (b"- ", b"o ", b"x ", b"~ ", b"< ", b"> ")]
        if not idx:
            return data + b"- " + rng.choice(HEAD_TOKENS).encode() + b" tail\n"
        i = rng.choice(idx)
        words = lines[i].split(b" ")
        pos = 1
        if len(words) > 2 and len(words[1]) == 2 and words[1][:1] == b"P":
            pos = 2
        toks = [rng.choice(HEAD_TOKENS).encode()]
        if rng.random() < 0.4:
            toks.append(rng.choice(HEAD_TOKENS).encode())
        if rng.random() < 0.3 and len(words) > pos:
            words[pos : pos + 1] = toks  # replace the first word (e.g. the note's own ZID)
        else:
            words[pos:pos] = toks
        lines[i] = b" ".join(words)
        return b"\n".join(lines)
    if kind == "bare_bullet":
        # bullets that consist of (nearly) nothing next to a `:: ` property
        i = rng.randrange(len(lines) + 1)
        item = rng.choice(
            [
                b"- alpha\n  * k:: v\n  * 240101#00",
                b"- alpha\n  * k:: v\n  * 240101",
                b"- 240101#00\n  * k:: v",
                b"- alpha k:: v\n  * ",
                b"- alpha\n  * k::\n  * ::",
                b"- alpha\n  * 240101 240101#00\n  * k:: v",
                b"o alpha\n    - k:: v\n  * \n    - 240101#00",
                b"- alpha\n  november\n     -   * bp0:: oscar",
                b"- alpha\n  * x\n    - \n      + k:: v",
                b"- alpha k:: v\n  * a\n    -  \n  * b\n      +  ",
            ]
        )
        return b"\n".join(lines[:i] + item.split(b"\n") + lines[i:])
    return data + b"\x01"


def gen_case(rng: random.Random, tier: str) -> dict:
    world = gen.gen_world(rng, pages=(1, 3), max_items=6, allow_rare=False)
    pages = sorted(world["files"])
    variants = []
    for _ in range(rng.randint(6, 10)):
        src = rng.choice(pages)
        data = world["files"][src].encode()
        kinds = [rng.choice(DAMAGE_KINDS) for _ in range(rng.choice([1, 1, 1, 2, 3]))]
        for k in kinds:
            data = damage(data, k, rng)
        variants.append({"src": src, "kinds": kinds, "data": data[:4096].decode("latin-1")})
    steps: list[dict] = []
    for _ in range(rng.randint(2, 6)):
        x = rng.random()
        if x < 0.4:
            steps.append({"op": "damage", "page": rng.randrange(1000), "variant": rng.randrange(1000)})
        elif x < 0.5:
            steps.append({"op": "repair", "page": rng.randrange(1000)})
        elif x < 0.58:
            steps.append({"op": "touch", "page": rng.randrange(1000), "word": rng.choice(gen.PLAIN)})
        elif x < 0.74:
            steps.append({"op": "reindex"})
            if rng.random() < 0.3:
                steps.append({"op": "reindex"})  # immediately again: a refusal must be repeated
        elif x < 0.8:
            steps.append({"op": "reindex", "paths": {"pick": [rng.randrange(1000)]}})
        elif x < 0.86:
            steps.append({"op": "create"})
        elif x < 0.95:
            steps.append({"op": "create", "force": True})
        else:
            steps.append({"op": "day", "days": rng.choice([1, 30])})
    if rng.random() < 0.3:
        # whitelist life cycle: a page breaks (but keeps recoverable notes), is force-indexed,
        # gets repaired, and must leave the whitelist again
        pg = rng.randrange(1000)
        cycle = [
            {"op": "break_tail", "page": pg, "text": rng.choice(["stray words without prefix", "O capital", "-no space", " leading space"])},
            {"op": "create", "force": True},
            rng.choice([{"op": "reindex"}, {"op": "touch", "page": pg + 1, "word": "cycle"}, {"op": "day", "days": 1}]),
            {"op": "repair", "page": pg},
            rng.choice([{"op": "reindex"}, {"op": "reindex"}, {"op": "create"}, {"op": "reindex", "paths": {"pick": [pg]}}]),
        ]
        at = rng.randrange(len(steps) + 1)
        steps[at:at] = cycle
    if rng.random() < 0.25:
        # two pages one of whose paths CONTAINS the other's (log.zo, arc/log.zo, blog.zo): the
        # longer one breaks and is whitelisted with -f, then the shorter one breaks; the
        # whitelist is a list of paths, not a text to search (after c08e)
        short = rng.choice(pages)
        twin = rng.choice(["arc/" + short, "x" + short, "old/v1/" + short])
        if twin not in world["files"]:
            world["files"][twin] = "# Twin page\n\n- twin note one\n- twin note two\n"
            tail = rng.choice(["stray words without prefix", "O capital", "-no space"])
            cycle = [
                {"op": "break_tail", "page": 0, "rel": twin, "text": tail},
                {"op": "create", "force": True},
                {"op": "break_tail", "page": 0, "rel": short, "text": tail},
                rng.choice([{"op": "create"}, {"op": "create"}, {"op": "reindex"}]),
            ]
            at = rng.randrange(len(steps) + 1)
            steps[at:at] = cycle
    steps.append(rng.choice([{"op": "reindex"}, {"op": "create"}, {"op": "create", "force": True}]))
    return {"world": world, "variants": variants, "steps": steps, "day0": core.EPOCH_DAY + rng.randrange(0, 300)}


def describe(case: dict) -> Any:
    return {"files": case["world"]["files"], "variants": case["variants"][:4], "steps": case["steps"]}


def reductions(case: dict):  # type: ignore[no-untyped-def]
    import copy

    from ..runner import generic_reductions

    vs = case.get("variants", [])
    if len(vs) > 1:
        for i in range(len(vs)):
            c = copy.deepcopy(case)
            c["variants"] = [vs[i]]
            yield c
    for i, v in enumerate(vs):
        data = v["data"]
        lines = data.split("\n")
        if len(lines) > 1:
            for j in range(len(lines)):
                c = copy.deepcopy(case)
                c["variants"][i]["data"] = "\n".join(lines[:j] + lines[j + 1 :])
                yield c
        words = data.split(" ")
        if 1 < len(words) <= 60:
            for j in range(len(words)):
                c = copy.deepcopy(case)
                c["variants"][i]["data"] = " ".join(words[:j] + words[j + 1 :])
                yield c
    yield from generic_reductions(case)


###############################################################################
# ground truth
###############################################################################


def parser_reports_errors(path: str) -> Optional[bool]:
    """Run the generated parser the way zorg does, with our own listener."""
    import antlr4
    from antlr4.error.ErrorListener import ErrorListener

    core.init_worker()
    from zorg.grammar.zorg_file.ZorgFileLexer import ZorgFileLexer
    from zorg.grammar.zorg_file.ZorgFileParser import ZorgFileParser

    class L(ErrorListener):
        def __init__(self) -> None:
            super().__init__()
            self.n = 0

        def syntaxError(self, recognizer: Any, offendingSymbol: Any, line: int, column: int, msg: str, e: Any) -> None:
            self.n += 1

    try:
        stream = antlr4.FileStream(path, errors="ignore")
        lexer = ZorgFileLexer(stream)
        lexer.removeErrorListeners()
        parser = ZorgFileParser(antlr4.CommonTokenStream(lexer))
        parser.removeErrorListeners()
        li = L()
        parser.addErrorListener(li)
        parser.prog()
        return li.n > 0
    except Exception:
        return None


def _items_reachable(data: bytes) -> int:
    return sum(1 for ln in data.split(b"\n") if ln[:2] in (b"- ", b"o ", b"x ", b"~ ", b"< ", b"> "))


###############################################################################
# execution
###############################################################################


def _compile_many(sim: core.Sim, paths: list[str]) -> core.Outcome:
    return sim.run({"op": "compile_many", "paths": paths})


def _whitelist(sim: core.Sim) -> set:
    p = os.path.join(sim.zdir, ".zorg", "error_file_whitelist.txt")
    if not os.path.exists(p):
        return set()
    with core._real_open(p, "rb") as f:
        return {x for x in f.read().decode("utf-8", "replace").split("\n") if x}


def execute(case: dict, scratch: str) -> dict:
    rec = hist.Rec()
    rec.stats["evaluations"] = 0
    sim = hist.materialize(scratch, case)
    originals = {k: v.encode() for k, v in case["world"]["files"].items()}
    o = sim.run({"op": "create"})
    rec.proc({"op": "create"}, None, o, sim)
    if o.status != "ok":
        rec.stat("skipped:initial-create-failed")
        return rec.result()

    good = ob.read_all_files(sim.zdir)  # error-free content, ZIDs included
    # content of every page as of the last index command that succeeded and
    # covered it: a page whose bytes differ from this has NOT been indexed yet,
    # whatever zorg's own book-keeping (file_hash.json) says
    indexed: dict[str, bytes] = {k: v for k, v in good.items() if k.endswith(".zo")}

    # -------------------------------------------------- (i) compile totality
    fuzz_dir = os.path.join(scratch, "fuzz")
    os.makedirs(fuzz_dir, exist_ok=True)
    truth: list[Optional[bool]] = []
    paths = []
    for i, v in enumerate(case["variants"]):
        data = v["data"].encode("latin-1")
        p = os.path.join(fuzz_dir, f"v{i}.zo")
        with core._real_open(p, "wb") as f:
            f.write(data)
        paths.append(p)
        truth.append(parser_reports_errors(p))
        rec.states.append(__import__("hashlib").sha256(data).hexdigest()[:16])
    if paths:
        oc = _compile_many(sim, paths)
        rec.proc({"op": "compile_many", "n": len(paths)}, None, oc)
        if oc.status != "ok":
            cause = "hang" if oc.status == "hang" else _idx.exc_cause(oc)
            return rec.result(hist.viol("compile-process-failed", cause, outcome=oc.brief()))
        for i, (res, t, v) in enumerate(zip(oc.ret, truth, case["variants"])):
            rec.stats["evaluations"] += 1
            data = v["data"].encode("latin-1")
            _damage_probes(rec, v, data, t)
            if "exc" in res:
                w = res["exc"]["where"][-1][1] if res["exc"]["where"] else "?"
                return rec.result(hist.viol("compile-raised", f"{res['exc']['type']}@{w}|parser-errors={t}", variant=i, kinds=v["kinds"], data=v["data"], msg=res["exc"]["msg"]))
            if t is None:
                rec.stat("ground-truth-unavailable")
                continue
            if res["has_errors"] != t:
                cause = f"parser-errors={t}/flag={res['has_errors']}/notes={min(len(res['notes']), 1)}"
                vv = hist.viol("has-errors-flag-wrong", cause, variant=i, kinds=v["kinds"], data=v["data"])
                if t and not res["has_errors"] and not res["notes"]:
                    # a deviation the run can model and continue past (zorg treats the
                    # page as clean and empty); recorded once per run
                    rec.soft(vv)
                    rec.probe("broken-page-compiled-unflagged-and-empty")
                    continue
                return rec.result(vv)
            if t and res["notes"]:
                rec.probe("broken-page-with-partial-notes-compiled")

    # ------------------------------------------------- (ii) protocol history
    for i, st in enumerate(case["steps"]):
        op = st["op"]
        pages = ob.list_pages(sim.zdir)
        if st.get("rel") in pages:
            st = dict(st, page=pages.index(st["rel"]))
        if op == "day":
            sim.day += st["days"]
            rec.stat("days", st["days"])
            continue
        if op == "damage":
            if not pages or not case["variants"]:
                continue
            p = pages[st["page"] % len(pages)]
            v = case["variants"][st["variant"] % len(case["variants"])]
            with core._real_open(os.path.join(sim.zdir, p), "wb") as f:
                f.write(v["data"].encode("latin-1"))
            rec.note("damage", page=p, kinds=v["kinds"])
            rec.probe("fault:page-damage")
            continue
        if op == "break_tail":
            if not pages:
                continue
            p = pages[st["page"] % len(pages)]
            full = os.path.join(sim.zdir, p)
            with core._real_open(full, "rb") as f:
                data = f.read()
            if data.endswith(b"\n") and _items_reachable(data) > 0:
                with core._real_open(full, "ab") as f:
                    f.write(st["text"].encode() + b"\n")
                rec.probe("fault:page-damage")
                rec.probe("page-broken-but-notes-recoverable")
            continue
        if op == "touch":
            if not pages:
                continue
            p = pages[st["page"] % len(pages)]
            full = os.path.join(sim.zdir, p)
            if parser_reports_errors(full) is False:
                with core._real_open(full, "rb") as f:
                    data = f.read()
                if data.endswith(b"\n"):
                    with core._real_open(full, "ab") as f:
                        f.write(("\n- touched " + st["word"] + "\n").encode())
                    if parser_reports_errors(full) is False:
                        rec.probe("valid-page-edited-next-to-broken-one")
                    else:
                        with core._real_open(full, "wb") as f:
                            f.write(data)
            continue
        if op == "repair":
            if not pages:
                continue
            p = pages[st["page"] % len(pages)]
            if p in good:
                with core._real_open(os.path.join(sim.zdir, p), "wb") as f:
                    f.write(good[p])
                rec.note("repair", page=p)
                rec.probe("page-repaired")
            continue
        # ---- an index command
        real: dict[str, Any]
        if op == "reindex":
            paths_ = _idx.resolve_paths(sim, st.get("paths"))
            if st.get("paths") and not paths_:
                continue
            real = {"op": "reindex", "paths": paths_} if paths_ else {"op": "reindex"}
            current = ob.read_all_files(sim.zdir)
            processed = [p for p in (paths_ or pages) if current.get(p) != indexed.get(p)]
        else:
            real = {"op": "create", "force": bool(st.get("force"))}
            processed = list(pages)
        broken = {p: parser_reports_errors(os.path.join(sim.zdir, p)) for p in processed}
        if any(v is None for v in broken.values()):
            rec.stat("ground-truth-unavailable")
            continue
        wl_before = _whitelist(sim)
        must_refuse = [p for p in processed if broken[p] and p not in wl_before and not real.get("force")]
        # compile results (for note counts) come from a zorg child, not the worker
        oc = _compile_many(sim, [os.path.join(sim.zdir, p) for p in processed])
        if oc.status != "ok" or any("exc" in r for r in oc.ret):
            rec.stat("history-cut:compile-of-stored-page-failed")  # reported by part (i) on its own variants
            return rec.result()
        compiled = dict(zip(processed, oc.ret))
        # what zorg itself believes: a broken page compiled unflagged (and empty) is
        # treated as clean by the protocol; that deviation is recorded as a (soft)
        # violation of its own and the history continues under zorg's belief
        believed_clean = [p for p in processed if broken[p] and not compiled[p]["has_errors"] and not compiled[p]["notes"]]
        for p in believed_clean:
            if p in must_refuse:
                rec.soft(hist.viol("broken-page-not-refused", _broken_cause(sim, p, compiled), step=i, op=real, page=p, text=_text(sim, p)))
            else:
                rec.soft(hist.viol("broken-page-indexed-unflagged", _broken_cause(sim, p, compiled), step=i, op=real, page=p, text=_text(sim, p)))
            broken[p] = False
        must_refuse = [p for p in must_refuse if p not in believed_clean]
        o = sim.run(real)
        rec.proc(real, None, o, sim)
        rec.stats["evaluations"] += 1
        if o.status == "hang":
            return rec.result(hist.viol("index-command-hang", real["op"], step=i))
        if must_refuse:
            rec.probe("refusal-expected")
            if o.status == "ok":
                return rec.result(hist.viol("broken-page-not-refused", _broken_cause(sim, must_refuse[0], compiled), step=i, op=real, pages=must_refuse, text=_text(sim, must_refuse[0])))
            if not o.refused:
                return rec.result(hist.viol("index-command-crashed", _idx.exc_cause(o), step=i, op=real, msg=(o.exc or {}).get("msg")))
            gained = _whitelist(sim) - wl_before
            if gained & set(must_refuse):
                return rec.result(hist.viol("refused-page-entered-whitelist", "-", step=i, pages=sorted(gained)))
            continue
        if o.status != "ok":
            if o.refused:
                return rec.result(hist.viol("refused-without-unlisted-broken-page", real["op"], step=i, op=real, msg=(o.exc or {}).get("msg"), processed=processed, broken=broken, whitelist=sorted(wl_before)))
            return rec.result(hist.viol("index-command-crashed", _idx.exc_cause(o), step=i, op=real, msg=(o.exc or {}).get("msg")))
        # successful command: judge the processed pages
        ci = ob.canon_index(sim.db_path)
        assert ci is not None
        by_page = _idx.index_notes_by_page(ci)
        wl_after = _whitelist(sim)
        for p in processed:
            row = ci["pages"].get(p)
            n_idx = len(by_page.get(p, []))
            if broken[p]:
                rec.probe("broken-page-indexed-because-whitelisted")
                if row is None or not row["has_errors"]:
                    return rec.result(hist.viol("broken-page-indexed-unflagged", _broken_cause(sim, p, compiled), step=i, page=p, row=row, notes=n_idx, text=_text(sim, p)))
                if p not in wl_after:
                    return rec.result(hist.viol("broken-indexed-page-not-whitelisted", "-", step=i, page=p))
            else:
                if row is None:
                    return rec.result(hist.viol("clean-page-not-indexed", "-", step=i, page=p))
                if row["has_errors"]:
                    return rec.result(hist.viol("clean-page-flagged-in-index", "-", step=i, page=p))
                if n_idx != len(compiled[p]["notes"]):
                    return rec.result(hist.viol("clean-page-partially-indexed", "-", step=i, page=p, indexed=n_idx, compiled=len(compiled[p]["notes"])))
                if p in wl_after:
                    return rec.result(hist.viol("clean-page-still-whitelisted", real["op"], step=i, page=p))
                if p in wl_before:
                    rec.probe("whitelisted-page-repaired-and-indexed-in-full")
        rec.probe("index-command-succeeded")
        now = ob.read_all_files(sim.zdir)
        for p in processed:
            indexed[p] = now[p]
        if real["op"] == "create":
            indexed = {k: v for k, v in now.items() if k.endswith(".zo")}
    return rec.result()


def _text(sim: core.Sim, p: str) -> str:
    with core._real_open(os.path.join(sim.zdir, p), "rb") as f:
        return f.read().decode("latin-1")


def _broken_cause(sim: core.Sim, p: str, compiled: dict) -> str:
    r = compiled.get(p, {})
    return f"flag={r.get('has_errors')}/notes={min(len(r.get('notes', [])), 1)}"


def _damage_probes(rec: hist.Rec, v: dict, data: bytes, truth: Optional[bool]) -> None:
    for k in v["kinds"]:
        rec.probe("fault:" + k)
    if truth:
        rec.probe("damaged-page-with-syntax-error")
        if _items_reachable(data) == 0:
            rec.probe("damage-leaves-zero-items")
    elif truth is False:
        rec.probe("damaged-page-still-valid")
    if any(b > 127 for b in data):
        rec.probe("non-ascii-byte")
    if b"\x00" in data:
        rec.probe("nul-byte")
    if not data.startswith(b"#"):
        rec.probe("header-damaged")
