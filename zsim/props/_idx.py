"""Shared machinery of the `index-history` profile (C06, C11)."""

from __future__ import annotations

import hashlib
import json
import os
import random
from typing import Any, Optional

from .. import core, gen, history as hist, observers as ob, oracles, user

QUERY_PANEL = [
    "S note O none",
    "S note W o G file",
    "S note W - O none G file",
    "S note W x~<> O none",
    "S note W o P0-3 O priority G file",
    "S note W #work | @desk | %ann | +zorg O none",
    "S note W !#work O none",
    "S note W [[inbox]] | [[proj]] | [[a]] O none",
    "S note W 'alpha' O none",
    "S note W f=*a* O none",
    "S note W k:* O none",
    "S # O alpha",
    "S + O alpha",
    "S @ O alpha",
    "S % O alpha",
    "S links O alpha",
    "S file O alpha",
    "S prop O alpha",
    "S count(note)",
    "S note W ^2024-01-01:2024-12-31 O none",
    "S note W $0d O none",
]


def seeded_queries(rng: random.Random, pages: list[str], n: int = 5) -> list[str]:
    """Queries built from words that occur in generated worlds."""
    def atom() -> str:
        k = rng.randrange(9)
        neg = "!" if rng.random() < 0.2 else ""
        if k == 0:
            return neg + "#" + rng.choice(gen.AREAS)
        if k == 1:
            return neg + "@" + rng.choice(gen.CONTEXTS)
        if k == 2:
            return neg + "%" + rng.choice(gen.PEOPLE)
        if k == 3:
            return neg + "+" + rng.choice(gen.PROJECTS)
        if k == 4:
            return neg + "'" + rng.choice(gen.PLAIN) + "'"
        if k == 5 and pages:
            return neg + "[[" + rng.choice(pages)[:-3] + "]]"
        if k == 6 and pages:
            base = rng.choice(pages)[:-3].rsplit("/", 1)[-1]
            return neg + "f=" + rng.choice(["*" + base, base + "*", "*" + base[:1] + "*"])
        if k == 7:
            return rng.choice(["o", "-", "x~", "o<>", "ox~<>-"]) + (" P" + str(rng.randrange(5)) + "-" + str(rng.randrange(5, 10)) if rng.random() < 0.3 else "")
        return rng.choice(gen.PROP_KEYS + ["hk", "fk", "bp0"]) + ":*"

    out = []
    for _ in range(n):
        parts = [atom() for _ in range(rng.randint(1, 3))]
        q = " ".join(parts)
        if rng.random() < 0.3:
            q += " | " + atom()
        out.append("S note W " + q + " O none" + rng.choice(["", " G file", " G type"]))
    return out


def gen_user_step(rng: random.Random, feats: list[str], weights: Optional[dict] = None, lo: int = 1, hi: int = 3) -> dict:
    return {"op": "user", "edits": [gen.gen_edit(rng, feats, weights) for _ in range(rng.randint(lo, hi))]}


def resolve_paths(sim: core.Sim, spec: Any) -> list[str]:
    pages = ob.list_pages(sim.zdir)
    if not spec or not pages:
        return []
    if isinstance(spec, dict) and "pick" in spec:
        out = []
        for i in spec["pick"]:
            p = pages[i % len(pages)]
            if p not in out:
                out.append(p)
        return out
    return [p for p in spec if os.path.exists(os.path.join(sim.zdir, p))]


def read_hash_map(sim: core.Sim) -> dict:
    p = os.path.join(sim.zdir, ".zorg", "file_hash.json")
    try:
        with core._real_open(p, "rb") as f:
            return json.loads(f.read())
    except (OSError, ValueError):
        return {}


def sha_file(path: str) -> str:
    with core._real_open(path, "rb") as f:
        return hashlib.sha256(f.read()).hexdigest()


def pages_to_process(sim: core.Sim, candidates: list[str]) -> list[str]:
    """Pages a reindex over `candidates` will process, from observable state only."""
    hm = read_hash_map(sim)
    out = []
    for p in candidates:
        full = os.path.join(sim.zdir, p)
        if os.path.exists(full) and hm.get(p) != sha_file(full):
            out.append(p)
    return out


def all_valid(sim: core.Sim, pages: Optional[list[str]] = None) -> Optional[str]:
    for p in pages if pages is not None else ob.list_pages(sim.zdir):
        if not user._valid(sim.zdir, p):
            return p
    return None


def index_notes_by_page(ci: dict) -> dict[str, list[dict]]:
    out: dict[str, list[dict]] = {}
    for key, n in sorted(ci["notes"].items()):
        out.setdefault(n.get("page_of_block") or n["page"], []).append(n)
    return out


def exc_cause(o: core.Outcome) -> str:
    if o.exc:
        w = o.exc["where"][-1][1] if o.exc.get("where") else "?"
        return f"{o.exc['type']}@{w}"
    return o.status
