"""C16 -- template initialisation never overwrites existing files.

Profile `ops-conformance`: generated ordered pattern maps and templates
(including clock-reading ones), histories over all entry points that reach
init_from_template (template init, edit, action open, note move), user edits
of initialised files, repeated inits and day changes.  The reference model
decides which template, which variables and whether to write, and
preprocesses the template itself (header dropped, `## ` -> `# `); only Jinja2's
own rendering of the preprocessed text is trusted.
"""

from __future__ import annotations

import datetime as _real_dt
import os
import random
import re
import types
from pathlib import Path
from typing import Any, Optional

from .. import core, gen, history as hist, observers as ob, user
from . import _idx
from .c10 import _only_blank_difference

ID = "C16"
LEVEL = "exploration"
RUNS = {"quick": 300, "thorough": 12000}
WALL_CAP = {"quick": 240, "thorough": 1500}
EVALS_FROM_STATS = True
RULE = (
    "case = seeded ordered pattern map (overlapping regexes, named groups, 8-digit date-like captures) + "
    "templates (captured variables, dt module, dt.date.today(), parent) + indexed world, then 3-7 steps "
    "over every entry point {template init [-f] [-t T] path [k=v], edit paths, action open on a [[missing]] "
    "link, note move to a missing page}, user edits of initialised files, repeated inits of the same path "
    "and day changes. After every step the whole directory is compared with the reference model. "
    "evaluations = init attempts judged; non-trivial = existing file kept, -f overwrite, second init after a "
    "day change with a clock-reading template, overlapping patterns (first match must win), date capture, "
    "no pattern matches, explicit template, sub-directory created; distinct = distinct final directory digests"
)

TEMPLATES = {
    "tmpl/date.zot": "# Template date\n#\n# header part\n\n{% set nxt = date + dt.timedelta(days=1) -%}\n## Log {{ date.strftime('%Y-%m-%d') }}\n##\n## > = [[logs/{{ nxt.strftime('%Y%m%d') }}]]\n\n################################ Tail\n",
    "tmpl/name.zot": "# Template name\n\n## {{ name }} {{ sub }} page\n##\n## k = {{ k }}\n\n################################ Section {{ name }}\n",
    "tmpl/today.zot": "# Template today\n\n## Created {{ dt.date.today().isoformat() }}\n\n################################ Made {{ dt.datetime.now().strftime('%H') }}\n",
    "tmpl/parent.zot": "# Template parent\n\n## Child {{ name }}\n##\n## ^ = [[{{ parent }}]]\n\n################################ Up\n",
    "tmpl/plain.zot": "# Template plain\n\n## Plain page\n\n- a template note\n\n",
    "tmpl/wide.zot": "# Template wide\n\n## Wide {{ date }}\n\n################################ W\n",
    # two templates that share their basename (zorg builds templates into one
    # scratch directory keyed by basename)
    "tmpl/work/log.zot": "# Work log template\n\n## WORK LOG {{ name }}\n##\n## ^ = [[work_index]]\n\n################################ Work\n",
    # line separators that only str.splitlines() honours must NOT end a template line
    "tmpl/ff.zot": "# Form feed template\n\x0c\n## FF {{ name }}\n##\n## sub\n\n################################ Raw\x0c## kept {{ name }}\n- raw numbers\x0c##\n",
    "tmpl/ls.zot": "# Line separator template \u2028 still header\n\n## LS {{ name }} \u2028## not a header line\n\n################################ Tail \x85 x\n",
    "tmpl/home/log.zot": "# Home log template\n\n## HOME LOG {{ name }}\n##\n## ^ = [[home_index]]\n\n################################ Home\n",
}

PATTERNS = [
    [r"^logs/(?P<date>[0-9]{4}[01][0-9][0-3][0-9])\.zo$", "tmpl/date.zot"],
    [r"^logs/(?P<date>[0-9]+)\.zo$", "tmpl/wide.zot"],
    [r"^logs/.*\.zo$", "tmpl/plain.zot"],
    [r"^ff/(?P<name>[a-z]+)\.zo$", "tmpl/ff.zot"],
    [r"^ls/(?P<name>[a-z]+)\.zo$", "tmpl/ls.zot"],
    [r"^work/(?P<name>[a-z]+)\.zo$", "tmpl/work/log.zot"],
    [r"^home/(?P<name>[a-z]+)\.zo$", "tmpl/home/log.zot"],
    [r"^(?P<name>[a-z]+)/(?P<sub>[a-z0-9]+)\.zo$", "tmpl/name.zot"],
    [r"^kids/(?P<name>[a-z]+)\.zo$", "tmpl/parent.zot"],
    [r".*_now\.zo$", "tmpl/today.zot"],
    [r"^(?P<name>[a-z]+)\.zo$", "tmpl/parent.zot"],
]

TARGETS = [
    "logs/20240229", "logs/20241231", "logs/20240101", "logs/20241339", "logs/123", "logs/abc", "kids/tom", "kids/ann",
    "proj/x1", "proj/alpha", "deep/er/path", "solo", "a_now", "logs/x_now", "nomatch/UPPER", "NoMatch", "kids/tom.zo",
    "work/standup", "home/standup", "work/retro", "home/chores", "ff/alpha", "ff/bravo", "ls/alpha",
]  # fmt: skip


def gen_case(rng: random.Random, tier: str) -> dict:
    world = gen.gen_world(rng, pages=(1, 2), max_items=4, allow_rare=False, zid_mode="all")
    for k, v in TEMPLATES.items():
        world["files"][k] = v
    patterns = [p for p in PATTERNS if rng.random() < 0.75]
    if rng.random() < 0.5:
        rng.shuffle(patterns)
    targets = rng.sample(TARGETS, k=rng.randint(2, 5))
    if rng.random() < 0.35:
        targets = list(dict.fromkeys(targets + ["work/" + rng.choice(["standup", "retro"]), "home/" + rng.choice(["standup", "chores"])]))
    # a page with one link per target for `action open`
    lines = ["# Links page", ""]
    for i, t in enumerate(targets):
        lines.append(f"- 230101#L{i} see [[{t[:-3] if t.endswith('.zo') else t}]]")
    world["files"]["linkspage.zo"] = "\n".join(lines) + "\n"
    steps: list[dict] = []
    for _ in range(rng.randint(3, 7)):
        t = rng.randrange(len(targets))
        x = rng.random()
        if x < 0.40:
            st: dict[str, Any] = {"op": "tinit", "target": t, "force": rng.random() < 0.25}
            if rng.random() < 0.3:
                st["template"] = rng.choice(sorted(TEMPLATES))
            if rng.random() < 0.4:
                st["vars"] = {rng.choice(["k", "name", "date", "parent", "sub"]): rng.choice(["v1", "20240315", "zed", "19991231"])}
            steps.append(st)
        elif x < 0.55:
            steps.append({"op": "edit", "targets": [t] + [rng.randrange(len(targets)) for _ in range(rng.choice([0, 0, 1, 2, 3]))]})
        elif x < 0.68:
            steps.append({"op": "open", "target": t})
        elif x < 0.76:
            steps.append({"op": "move", "target": t, "note": rng.randrange(1000)})
        elif x < 0.88:
            steps.append({"op": "scribble", "target": t, "text": "# Mine " + rng.choice(gen.PLAIN) + "\n\n- my own note " + rng.choice(gen.PLAIN) + "\n"})
        else:
            steps.append({"op": "day", "days": rng.choice([1, 1, 31, 366])})
    return {"world": world, "targets": targets, "steps": steps, "cfg": {"template_patterns": patterns}, "day0": core.EPOCH_DAY + rng.randrange(0, 300)}


def describe(case: dict) -> Any:
    return {"patterns": case["cfg"]["template_patterns"], "targets": case["targets"], "steps": case["steps"]}


###############################################################################
# reference model
###############################################################################


def target_rel(t: str) -> str:
    return t if "." in t else t + ".zo"


def model_choice(patterns: list, rel: str, explicit: Optional[str], given: dict) -> tuple[Optional[str], dict]:
    """First matching pattern wins (its named groups override given variables);
    without a match the explicit template (if any) is used."""
    vars_ = dict(given)
    chosen = explicit
    for pat, tmpl in patterns:
        m = re.compile(pat).match(rel)
        if m:
            chosen = tmpl
            vars_.update(m.groupdict())
            break
    return chosen, vars_


def model_vars(vars_: dict) -> dict:
    out = {}
    for k, v in vars_.items():
        if isinstance(v, str) and re.fullmatch(r"[0-9]{4}[01][0-9][0-3][0-9]", v):
            out[k] = _real_dt.datetime.strptime(v, "%Y%m%d")  # may raise: impossible date
        else:
            out[k] = v
    return out


def render(sim: core.Sim, tmpl: str, vars_: dict, scratch: str) -> str:
    """Reference rendering: the template file minus its header (everything up to and
    including the first blank line), with one `#` stripped from lines that start with
    `## ` or are exactly `##`, rendered by Jinja2 itself (trusted) with the variables
    and the `dt` module, under the simulated date.  zorg's own template code is NOT used."""
    import jinja2

    core.init_worker()
    with open(os.path.join(sim.zdir, tmpl), "r") as f:  # universal newlines, as zorg reads it
        text = f.read()
    # lines end at "\n" only (a form feed or U+2028 inside a line does not end it)
    lines = text.split("\n")
    lines = [ln + "\n" for ln in lines[:-1]] + ([lines[-1]] if lines[-1] else [])
    body: list[str] = []
    seen_blank = False
    for ln in lines:
        if not seen_blank:
            if not ln.strip():
                seen_blank = True
            continue
        body.append(ln[1:] if ln.startswith("## ") or ln.strip() == "##" else ln)
    saved = core.CLOCK.ordinal
    core.set_day(sim.day)
    try:
        env = jinja2.Environment()
        return env.from_string("".join(body)).render(dict(vars_) | {"dt": core.DT_SHIM})
    finally:
        core.set_day(saved)


def expected_init(sim: core.Sim, files: dict[str, bytes], rel: str, patterns: list, scratch: str, *, force: bool = False, explicit: Optional[str] = None, given: Optional[dict] = None, rec: Optional[hist.Rec] = None) -> tuple[dict[str, bytes], str]:
    """-> (expected files, verdict) with verdict in kept / written / nothing / raises."""
    if rel in files and not force:
        return files, "kept"
    chosen, vars_ = model_choice(patterns, rel, explicit, given or {})
    if chosen is None:
        return files, "nothing"
    try:
        text = render(sim, chosen, model_vars(vars_), scratch)
    except Exception as e:  # the real code is expected to fail the same way, writing nothing
        return files, "raises:" + type(e).__name__
    out = dict(files)
    out[rel] = text.encode("utf-8")
    return out, "written"


###############################################################################
# execution
###############################################################################


def execute(case: dict, scratch: str) -> dict:
    rec = hist.Rec()
    rec.stats["evaluations"] = 0
    sim = hist.materialize(scratch, case)
    patterns = case["cfg"]["template_patterns"]
    o = sim.run({"op": "create"})
    rec.proc({"op": "create"}, None, o, sim)
    if o.status != "ok":
        rec.stat("skipped:initial-create-failed")
        return rec.result()
    inited_on: dict[str, int] = {}
    for i, st in enumerate(case["steps"]):
        op = st["op"]
        if op == "day":
            sim.day += st["days"]
            rec.stat("days", st["days"])
            continue
        before = ob.read_all_files(sim.zdir)
        if op == "scribble":
            rel = target_rel(case["targets"][st["target"] % len(case["targets"])])
            if rel in before:
                user._write(os.path.join(sim.zdir, rel), st["text"])
                rec.probe("user-edited-initialised-file")
            continue
        if op == "tinit":
            t = case["targets"][st["target"] % len(case["targets"])]
            rel = target_rel(t)
            real = {"op": "tinit", "path": t, "force": st.get("force", False), "template": st.get("template"), "vars": st.get("vars", {})}
            want, verdict = expected_init(sim, before, rel, patterns, scratch, force=st.get("force", False), explicit=st.get("template"), given=st.get("vars"))
            o = sim.run(real)
            rec.proc(real, None, o, sim)
            v = _judge(rec, sim, before, want, verdict, o, rel, i, real, inited_on, exact=True)
            if v:
                return rec.result(v)
            _choice_probes(rec, patterns, rel, st, verdict)
            continue
        if op == "open":
            tix = st["target"] % len(case["targets"])
            t = case["targets"][tix]
            rel = target_rel(t)
            real = {"op": "open", "path": "linkspage.zo", "line": 3 + tix}
            want, verdict = expected_init(sim, before, rel, patterns, scratch, given={"parent": "linkspage"})
            o = sim.run(real)
            rec.proc(real, None, o, sim)
            v = _judge(rec, sim, before, want, verdict, o, rel, i, real, inited_on, exact=True)
            if v:
                return rec.result(v)
            rec.probe("entry:action-open")
            continue
        if op == "edit":
            ts = [case["targets"][x % len(case["targets"])] for x in st["targets"]]
            want = before
            verdicts = []
            for t in ts:
                want, verdict = expected_init(sim, want, target_rel(t), patterns, scratch)
                verdicts.append(verdict)
                if verdict.startswith("raises"):
                    break  # run_edit aborts at the first target whose rendering fails
            real = {"op": "edit", "paths": ts, "sessions": [{"edits": []}]}
            o = sim.run(real)
            rec.proc(real, None, o, sim)
            # `edit` reindexes afterwards (ZID write-back into the new page): compare modulo inserted ZIDs
            v = _judge(rec, sim, before, want, "+".join(verdicts), o, target_rel(ts[0]), i, real, inited_on, exact=False)
            if v:
                return rec.result(v)
            rec.probe("entry:edit")
            used = {model_choice(patterns, target_rel(t), None, {})[0] for t in ts}
            used.discard(None)
            rec.probe("one-process-renders-templates-with-equal-basename", int(len({os.path.basename(u) for u in used}) < len(used)))
            rec.probe("one-process-initialises-several-targets", int(len(ts) > 1))
            continue
        if op == "move":
            t = case["targets"][st["target"] % len(case["targets"])]
            rel = target_rel(t)
            if rel in before:
                continue
            # `note move` works on an indexed directory: bring the index up to date first
            orx = sim.run({"op": "reindex"})
            rec.proc({"op": "reindex"}, None, orx, sim)
            if orx.status != "ok":
                continue
            before = ob.read_all_files(sim.zdir)
            ci = ob.canon_index(sim.db_path)
            keys = sorted(k for k in (ci["notes"] if ci else {}) if k[0] != "linkspage.zo")
            if not keys:
                continue
            note = ci["notes"][keys[st["note"] % len(keys)]]
            want, verdict = expected_init(sim, before, rel, patterns, scratch)
            real = {"op": "move", "zid": note["zid"], "dest": rel, "marker": None}
            o = sim.run(real)
            rec.proc(real, None, o, sim)
            after = ob.read_all_files(sim.zdir)
            rec.stats["evaluations"] += 1
            rec.probe("entry:note-move")
            if verdict == "written":
                if o.status != "ok" or o.ret != 0 or rel not in after:
                    return rec.result(hist.viol("move-did-not-create-destination-from-template", "-", step=i, op=real, outcome=o.brief()))
                N = after[rel].decode().split("\n")
                body = note["body"].split("\n")
                ks = [k for k, ln in enumerate(N) if (ob.split_item_line(ln) or {}).get("zid") == note["zid"]]
                if len(ks) != 1:
                    return rec.result(hist.viol("moved-note-not-once-in-new-page", "-", step=i, text=after[rel].decode()))
                R = N[: ks[0]] + N[ks[0] + len(body) :]
                if not _only_blank_difference(R, want[rel].decode().split("\n"), ks[0]):
                    return rec.result(hist.viol("template-part-of-new-page-differs", "-", step=i, expected=want[rel].decode(), actual=after[rel].decode()))
                inited_on[rel] = sim.day
            elif rel in after:
                return rec.result(hist.viol("file-created-without-matching-template", verdict, step=i, op=real, text=after[rel].decode()))
            continue
    rec.states.append(hist.state_digest(sim))
    return rec.result()


def _judge(rec: hist.Rec, sim: core.Sim, before: dict, want: dict, verdict: str, o: core.Outcome, rel: str, step: int, real: dict, inited_on: dict, exact: bool) -> Optional[dict]:
    after = ob.read_all_files(sim.zdir)
    rec.stats["evaluations"] += 1
    rec.probe("verdict:" + verdict.split(":")[0].split("+")[0])
    if verdict.startswith("raises") and exact:
        # the rendering cannot be produced: whether zorg reports that as an error is
        # not part of the statement, but nothing may be written or changed
        if after != before:
            return hist.viol("failed-init-changed-files", verdict, step=step, op=real, status=o.status)
        return None
    if o.status != "ok" and exact:
        return hist.viol("init-raised", _idx.exc_cause(o), step=step, op=real, msg=(o.exc or {}).get("msg"), verdict=verdict)
    for p in sorted(set(want) | set(after)):
        a, w = after.get(p), want.get(p)
        if a == w:
            continue
        if not exact and a is not None and w is not None and ob.user_text(a.decode("utf-8", "replace")) == ob.user_text(w.decode("utf-8", "replace")):
            continue
        if not exact and p.startswith(".") or (not exact and p.endswith(".tmp")):
            continue
        was = before.get(p)
        if was is not None and w == was:
            cause = "existing-file-changed" + ("" if p == rel else ":other-file")
        elif was is None and w is None:
            cause = "file-created-but-nothing-expected"
        elif was is None and a is None:
            cause = "file-not-created"
        else:
            cause = "content-differs-from-first-matching-template"
        return hist.viol("directory-differs-from-model", f"{cause}|{verdict.split(':')[0]}", step=step, op=real, file=p, expected=_t(w), actual=_t(a), before=_t(was))
    if rel in after and rel not in before:
        inited_on[rel] = sim.day
        rec.probe("sub-directory-created", int("/" in rel))
    elif rel in before and verdict.startswith("kept"):
        rec.probe("existing-file-kept")
        if rel in inited_on and inited_on[rel] != sim.day:
            rec.probe("second-init-on-a-later-day-kept-file")
    return None


def _t(b: Optional[bytes]) -> Optional[str]:
    return None if b is None else b.decode("utf-8", "replace")


def _choice_probes(rec: hist.Rec, patterns: list, rel: str, st: dict, verdict: str) -> None:
    matches = [t for p, t in patterns if re.compile(p).match(rel)]
    rec.probe("overlapping-patterns-match", int(len(matches) >= 2))
    rec.probe("no-pattern-matches", int(not matches))
    rec.probe("explicit-template-given", int(bool(st.get("template"))))
    rec.probe("forced-overwrite", int(bool(st.get("force")) and verdict == "written"))
    rec.probe("date-like-capture", int(bool(re.search(r"/[0-9]{8}", rel))))
    rec.probe("entry:template-init")
