"""C07 -- ZIDs are unique, well-formed and recognised by every component.

Profile `zid-history`:
  * runs 0..SHARDS-1 compose ONE long deterministic history: the complete
    successor chain of one date, driven through the public allocator until the
    explicit out-of-IDs error, sharded by state injection into next_ids.json
    (the manager's only state), with a restart (new process) per shard and a
    new manager object at seeded points;
  * the remaining runs are seeded interleaved histories over several dates with
    restarts between any two allocations, `seek` steps that place the persisted
    counter just before a roll-over, and allocations made by real db create /
    db reindex of pages with new notes.
"""

from __future__ import annotations

import datetime as _real_dt
import json
import os
import random
import re
from typing import Any, Optional

from .. import core, gen, history as hist, observers as ob, user

ID = "C07"
LEVEL = "exploration"
SHARDS = 32
RUNS = {"quick": SHARDS + 200, "thorough": SHARDS + 6000}
WALL_CAP = {"quick": 280, "thorough": 1500}
EXHAUSTIVE_KEY = None
RULE = (
    f"runs 0..{SHARDS - 1}: shards of the complete successor chain of one date (all 51^2+51^3 = 135252 "
    "suffixes, independently enumerated) driven through ZIDManager.get_next in forked processes from "
    "state injected into next_ids.json, each ZID checked for uniqueness, form, alphabet, one-ZID-token "
    "lexing by both lexers and recognition by the compiler (100 per page); the last shard must end with "
    "the explicit out-of-IDs error after exactly the last suffix. Other runs: seeded histories of 20-200 "
    "allocations over 3-5 dates split over processes/managers at seeded points, seek-to-roll-over state "
    "injection, and real db create/reindex of pages with new notes. evaluations = ZIDs allocated and "
    "checked; non-trivial = run crossed a roll-over (..9->A, ..Z->a, skipped letter, zz->000) or mixed "
    "allocator and create/reindex allocations; distinct = distinct final next_ids.json states"
)
EVALS_FROM_STATS = True
ASSUMPTIONS = [
    "dates are in 2000-2099 (two-digit year)",
    "the order of suffixes is not constrained; sharding assumes the natural order and falls back to reporting 'order differs' (not a violation) when zorg hands out another order",
]

ALPHA = gen.ZID_ALPHABET
N2 = len(ALPHA) ** 2
N3 = len(ALPHA) ** 3
TOTAL = N2 + N3
_EXCLUDED = set("IOQSgijlpqy")
_FORM = re.compile(r"^(\d{6})#([0-9A-Za-z]{2,3})$")


def chain(pos: int) -> Optional[str]:
    """Independent enumeration: position -> suffix (None past the end)."""
    a = ALPHA
    n = len(a)
    if pos < N2:
        return a[pos // n] + a[pos % n]
    pos -= N2
    if pos < N3:
        return a[pos // (n * n)] + a[(pos // n) % n] + a[pos % n]
    return None


def gen_case_idx(idx: int, rng: random.Random, tier: str) -> dict:
    if idx < SHARDS:
        lo = idx * TOTAL // SHARDS
        hi = (idx + 1) * TOTAL // SHARDS
        day = _real_dt.date(2031, 7, 9).toordinal()
        return {"kind": "shard", "shard": idx, "lo": lo, "hi": hi, "date": day, "managers": rng.randint(1, 50), "world": {"files": {}}}
    return gen_history(rng, tier)


def gen_case(rng: random.Random, tier: str) -> dict:  # pragma: no cover - runner uses gen_case_idx
    return gen_history(rng, tier)


_ROLLOVERS = ["08", "09", "0Z", "0z", "0H", "0N", "0R", "zx", "zz", "9z", "Zz", "0zz", "zzx", "00z", "0Hz", "zzw"]


def gen_history(rng: random.Random, tier: str) -> dict:
    base = _real_dt.date(2000 + rng.randrange(0, 100), rng.randint(1, 12), rng.randint(1, 28)).toordinal()
    dates = [base + rng.randrange(0, 40) for _ in range(rng.randint(3, 5))]
    if rng.random() < 0.3:
        dates[0] = _real_dt.date(2000 + rng.randrange(0, 100), 12, 31).toordinal()
    if rng.random() < 0.2:
        dates[-1] = _real_dt.date(rng.choice([2000, 2024, 2096]), 2, 29).toordinal()
    steps: list[dict] = []
    total = rng.randint(20, 200)
    while total > 0:
        x = rng.random()
        if x < 0.62:
            n = min(total, rng.randint(1, 30))
            steps.append({"op": "alloc", "dates": [rng.choice(dates) for _ in range(n)], "per_manager": rng.choice([1, 1, 2, 5, 0])})
            total -= n
        elif x < 0.80:
            steps.append({"op": "seek", "date": rng.choice(dates), "suffix": rng.choice(_ROLLOVERS)})
        else:
            # a page with new notes dated on one of the dates, indexed for real
            d = _real_dt.date.fromordinal(rng.choice(dates))
            k = rng.randint(1, 4)
            text = f"# Page {d.isoformat()}\n\n" + "".join(f"- {rng.choice(gen.PLAIN)} {rng.choice(gen.PLAIN)}\n" for _ in range(k))
            steps.append({"op": "index", "how": rng.choice(["create", "reindex"]), "name": f"p{len(steps)}.zo", "text": text})
            total -= k
    return {"kind": "history", "dates": dates, "steps": steps, "world": {"files": {}}, "day0": core.EPOCH_DAY}


def finalize(results: list[dict], tier: str) -> list[dict]:
    """The shards assume the natural suffix order.  When zorg hands out another
    order (legal: the statement fixes none) their composition proves nothing, so
    the whole chain is then driven once more as ONE sequential history."""
    if any((r.get("stats") or {}).get("order-differs-from-natural-enumeration") for r in results if r["idx"] < SHARDS):
        return [{"kind": "full", "date": _real_dt.date(2031, 7, 9).toordinal(), "world": {"files": {}}}]
    return []


def describe(case: dict) -> Any:
    if case["kind"] == "shard":
        return {k: case[k] for k in ("kind", "shard", "lo", "hi", "managers")}
    if case["kind"] == "full":
        return {"kind": "full"}
    return {"kind": "history", "dates": case["dates"], "steps": case["steps"][:12], "n_steps": len(case["steps"])}


###############################################################################
# per-ZID oracle
###############################################################################

_LEXERS: dict[str, Any] = {}


def _lex_types(zid: str) -> dict[str, list[str]]:
    import antlr4

    core.init_worker()
    if not _LEXERS:
        from zorg.grammar.zorg_file.ZorgFileLexer import ZorgFileLexer
        from zorg.grammar.zorg_query.ZorgQueryLexer import ZorgQueryLexer

        _LEXERS["file"] = ZorgFileLexer
        _LEXERS["query"] = ZorgQueryLexer
    out = {}
    for name, cls in _LEXERS.items():
        lx = cls(antlr4.InputStream(zid))
        lx.removeErrorListeners()
        toks = []
        while True:
            t = lx.nextToken()
            if t.type == antlr4.Token.EOF:
                break
            toks.append("ZID" if t.type == cls.ZID else f"type{t.type}:{t.text}")
        out[name] = toks
    return out


def check_zids(zids: list[str], want_dates: list[int], seen: set, scratch: str, rec: hist.Rec) -> Optional[dict]:
    """Form, alphabet, date part, uniqueness, lexing, compilation."""
    for z, d in zip(zids, want_dates):
        m = _FORM.match(z)
        if not m:
            return hist.viol("zid-malformed", "-", zid=z)
        if set(m.group(2)) & _EXCLUDED:
            return hist.viol("zid-has-excluded-character", "-", zid=z)
        want = _real_dt.date.fromordinal(d).strftime("%y%m%d")
        if m.group(1) != want:
            return hist.viol("zid-date-part-wrong", "-", zid=z, want=want)
        if z in seen:
            return hist.viol("zid-allocated-twice", f"suffix-length-{len(m.group(2))}", zid=z)
        seen.add(z)
        toks = _lex_types(z)
        for name, tt in toks.items():
            if tt != ["ZID"]:
                return hist.viol(f"zid-not-one-token-in-{name}-lexer", f"suffix-length-{len(m.group(2))}", zid=z, tokens=tt)
        rec.stats["evaluations"] = rec.stats.get("evaluations", 0) + 1
    # compile them 100 per page
    zdir = os.path.join(scratch, "zc")
    for i in range(0, len(zids), 100):
        batch = zids[i : i + 100]
        text = "# t\n\n" + "".join(f"- {z} w\n" for z in batch)
        user._write(os.path.join(zdir, "p.zo"), text)
        page = ob.compile_page(zdir, "p.zo")
        notes = page.notes
        if page.has_errors or len(notes) != len(batch):
            return hist.viol("zid-page-does-not-compile", "-", batch=batch[:3], has_errors=page.has_errors, notes=len(notes))
        for z, n in zip(batch, notes):
            if n.zid != z:
                return hist.viol("zid-not-recognised-by-compiler", f"suffix-length-{len(z) - 7}", zid=z, compiled_zid=n.zid)
            if n.create_date.strftime("%y%m%d") != z[:6]:
                return hist.viol("zid-create-date-wrong", "-", zid=z, create=str(n.create_date))
    return None


###############################################################################
# execution
###############################################################################


def _write_next_ids(sim: core.Sim, m: dict) -> None:
    user._write(os.path.join(sim.zdir, ".zorg", "next_ids.json"), json.dumps(m, indent=4))


def _read_next_ids(sim: core.Sim) -> dict:
    p = os.path.join(sim.zdir, ".zorg", "next_ids.json")
    if not os.path.exists(p):
        return {}
    with core._real_open(p) as f:
        return json.loads(f.read())


def execute(case: dict, scratch: str) -> dict:
    rec = hist.Rec()
    rec.stats["evaluations"] = 0
    sim = hist.materialize(scratch, case)
    os.makedirs(os.path.join(sim.zdir, ".zorg"), exist_ok=True)
    if case["kind"] == "shard":
        return _execute_shard(case, sim, scratch, rec)
    if case["kind"] == "full":
        return _execute_full(case, sim, scratch, rec)
    return _execute_history(case, sim, scratch, rec)


def _execute_shard(case: dict, sim: core.Sim, scratch: str, rec: hist.Rec) -> dict:
    lo, hi, day = case["lo"], case["hi"], case["date"]
    key = _real_dt.date.fromordinal(day).strftime("%y%m%d")
    if lo > 0:
        _write_next_ids(sim, {key: chain(lo)})
    last = hi >= TOTAL
    n = hi - lo
    op = {"op": "alloc_until_error", "date": day, "limit": n + (5 if last else 0)}
    o = sim.run(op, budget=600)
    rec.stats["processes"] += 1
    rec.stats["effects"] += len(o.effects)
    if o.status != "ok":
        return rec.result(hist.viol("allocation-crashed", f"{(o.exc or {}).get('type')}", outcome=o.brief(), msg=(o.exc or {}).get("msg")))
    ret = o.ret
    zids = ret["zids"]
    rec.events.append({"shard": case["shard"], "n": len(zids), "first": zids[:1], "last": zids[-1:], "error": ret["error"]})
    natural = all(z[7:] == chain(lo + i) for i, z in enumerate(zids[: n]))
    if not natural:
        rec.stat("order-differs-from-natural-enumeration")
    seen: set = set()
    v = check_zids(zids, [day] * len(zids), seen, scratch, rec)
    if v:
        return rec.result(v)
    for z in zids:
        s = z[7:]
        if len(s) == 3 and s.endswith("00") or s[-1] in "Aa0" or s in ("000",):
            rec.probe("roll-over-crossed")
            break
    if not last:
        if ret["error"] is not None or len(zids) != n:
            return rec.result(hist.viol("allocation-failed-before-exhaustion", f"{ret.get('error_type')}", shard=case["shard"], allocated=len(zids), wanted=n, error=ret["error"]))
        if natural:
            nxt = _read_next_ids(sim).get(key)
            if nxt != chain(hi):
                return rec.result(hist.viol("persisted-counter-wrong-after-shard", "-", shard=case["shard"], persisted=nxt, expected=chain(hi)))
            rec.stat("shards-composed")
    else:
        rec.probe("exhaustion-reached")
        if ret["error"] is None:
            return rec.result(hist.viol("no-out-of-ids-error", "-", allocated=len(zids), expected=n))
        if ret.get("error_type") != "RuntimeError":
            return rec.result(hist.viol("exhaustion-error-not-explicit", f"{ret.get('error_type')}", error=ret["error"]))
        if natural and len(zids) != n:
            return rec.result(hist.viol("exhaustion-after-wrong-count", f"handed-out-{TOTAL - n + len(zids)}-of-{TOTAL}", allocated_in_shard=len(zids), expected_in_shard=n, last=zids[-1:]))
        # the error must persist: a restart does not hand out anything either
        o2 = sim.run({"op": "alloc_until_error", "date": day, "limit": 3})
        rec.stats["processes"] += 1
        if o2.status != "ok" or o2.ret["zids"] or o2.ret.get("error_type") != "RuntimeError":
            return rec.result(hist.viol("allocation-after-exhaustion", "-", outcome=o2.brief(), ret=o2.ret if o2.status == "ok" else None))
        rec.stat("shards-composed")
    rec.states.append(json.dumps(_read_next_ids(sim), sort_keys=True))
    return rec.result()


def _execute_full(case: dict, sim: core.Sim, scratch: str, rec: hist.Rec) -> dict:
    day = case["date"]
    o = sim.run({"op": "alloc_until_error", "date": day, "limit": TOTAL + 10}, budget=1800)
    rec.stats["processes"] += 1
    rec.probe("full-chain-sequential-fallback")
    if o.status != "ok":
        return rec.result(hist.viol("allocation-crashed", f"{(o.exc or {}).get('type')}", outcome=o.brief()))
    zids = o.ret["zids"]
    rec.events.append({"full": True, "n": len(zids), "error": o.ret["error"]})
    seen: set = set()
    # form / alphabet / uniqueness for all; lexing and compilation for every 40th
    for i, z in enumerate(zids):
        m = _FORM.match(z)
        if not m or set(m.group(2)) & _EXCLUDED:
            return rec.result(hist.viol("zid-malformed", "-", zid=z))
        if z in seen:
            return rec.result(hist.viol("zid-allocated-twice", f"suffix-length-{len(m.group(2))}", zid=z))
        seen.add(z)
    v = check_zids(zids[::40], [day] * len(zids[::40]), set(), scratch, rec)
    if v:
        return rec.result(v)
    rec.stats["evaluations"] = rec.stats.get("evaluations", 0) + len(zids)
    if o.ret["error"] is None or o.ret.get("error_type") != "RuntimeError":
        return rec.result(hist.viol("no-out-of-ids-error", "-", allocated=len(zids)))
    if len(zids) != TOTAL:
        return rec.result(hist.viol("exhaustion-after-wrong-count", f"handed-out-{len(zids)}-of-{TOTAL}", last=zids[-1:]))
    return rec.result()


def _execute_history(case: dict, sim: core.Sim, scratch: str, rec: hist.Rec) -> dict:
    seen: set = set()
    injected: dict[str, set] = {}
    mixed = {"alloc": False, "index": False}
    for i, st in enumerate(case["steps"]):
        if st["op"] == "alloc":
            o = sim.run(st)
            rec.proc({"op": "alloc", "n": len(st["dates"]), "per_manager": st["per_manager"]}, None, o)
            if o.status != "ok":
                exc = o.exc or {}
                if _is_out_of_ids(exc):
                    # legitimate only if that date is really exhausted (seek put it at the end)
                    rec.probe("exhaustion-reached-in-history")
                    nm = _read_next_ids(sim)
                    continue
                return rec.result(hist.viol("allocation-crashed", f"{exc.get('type')}", step=i, outcome=o.brief(), msg=exc.get("msg")))
            mixed["alloc"] = True
            zids = o.ret
            v = check_zids(zids, st["dates"][: len(zids)], seen, scratch, rec)
            if v:
                v["detail"]["step"] = i
                return rec.result(v)
            if any(z[7:] in ("0A", "0a", "10", "000") or z.endswith(("A", "a")) for z in zids):
                rec.probe("roll-over-crossed")
        elif st["op"] == "seek":
            # state injection: jump the persisted counter of one date forward to
            # just before a roll-over; never backwards (that would re-issue IDs)
            key = _real_dt.date.fromordinal(st["date"]).strftime("%y%m%d")
            m = _read_next_ids(sim)
            cur = m.get(key, "00")
            if _pos(st["suffix"]) is not None and _pos(cur) is not None and _pos(st["suffix"]) > _pos(cur):
                m[key] = st["suffix"]
                _write_next_ids(sim, m)
                rec.probe("seek-to-roll-over")
                rec.note("seek", date=key, suffix=st["suffix"])
        elif st["op"] == "index":
            user._write(os.path.join(sim.zdir, st["name"]), st["text"])
            op = {"op": st["how"]}
            o = sim.run(op)
            rec.proc(op, None, o)
            if o.status != "ok":
                exc = o.exc or {}
                if _is_out_of_ids(exc):
                    rec.probe("exhaustion-reached-in-history")
                    os.unlink(os.path.join(sim.zdir, st["name"]))
                    continue
                return rec.result(hist.viol("index-command-failed", f"{exc.get('type')}", step=i, msg=exc.get("msg")))
            mixed["index"] = True
            page = ob.compile_page(sim.zdir, st["name"])
            zids = [n.zid for n in page.notes]
            if any(z is None for z in zids):
                return rec.result(hist.viol("zid-not-recognised-by-compiler", "after-index-command", step=i, text=ob.read_all_files(sim.zdir)[st["name"]].decode()))
            day = _real_dt.datetime.strptime("20" + zids[0][:6], "%Y%m%d").date().toordinal() if zids else 0
            v = check_zids(zids, [day] * len(zids), seen, scratch, rec)
            if v:
                v["detail"]["step"] = i
                return rec.result(v)
    rec.probe("allocator-and-index-commands-mixed", int(mixed["alloc"] and mixed["index"]))
    rec.states.append(json.dumps(_read_next_ids(sim), sort_keys=True))
    return rec.result()


def _is_out_of_ids(exc: dict) -> bool:
    """The explicit out-of-IDs error, recognised structurally (a RuntimeError raised
    by the ZID manager module itself), never by its wording."""
    where = exc.get("where") or []
    return exc.get("type") == "RuntimeError" and bool(where) and where[-1][0].endswith("_zid_manager.py")


def _pos(suffix: str) -> Optional[int]:
    try:
        a = ALPHA
        n = len(a)
        if len(suffix) == 2:
            return a.index(suffix[0]) * n + a.index(suffix[1])
        if len(suffix) == 3:
            return N2 + a.index(suffix[0]) * n * n + a.index(suffix[1]) * n + a.index(suffix[2])
    except ValueError:
        return None
    return None
