"""C07 -- ZIDs are unique, well-formed and recognised by every component.

Profile `zid-history`:
  * `prepare` drives ONE long deterministic history through the public
    allocator in a forked zorg process: a single date, allocation after
    allocation until the explicit out-of-IDs error (135 252 allocations with a
    new manager every 997).  It yields zorg's own successor chain and, at chosen
    positions, the value zorg persisted in next_ids.json.  Nothing about the
    ORDER of suffixes is assumed (the statement fixes none); count, uniqueness
    and the explicit error are judged on this history (reported by run 0).
  * runs 0..SHARDS-1 re-enter that history at SHARDS positions by state
    injection (the persisted value zorg itself wrote there; the file is the
    manager's only state), each in its own process, and apply the per-ZID
    oracles (form, alphabet, one ZID token in both lexers, recognised by the
    compiler) to their share; the last shard must end with the explicit error.
  * the remaining runs are seeded interleaved histories over several dates with
    restarts between any two allocations, `seek` steps that move a date's
    persisted counter FORWARD to a position of zorg's own chain (just before
    roll-overs and the end), and allocations made by real db create / reindex.
"""

from __future__ import annotations

import datetime as _real_dt
import json
import os
import random
import re
import shutil
from typing import Any, Optional

from .. import core, gen, history as hist, observers as ob, user

ID = "C07"
LEVEL = "exploration"
SHARDS = 32
RUNS = {"quick": SHARDS + 200, "thorough": SHARDS + 6000}
WALL_CAP = {"quick": 280, "thorough": 1500}
EXHAUSTIVE_KEY = None
EVALS_FROM_STATS = True
ALPHA = gen.ZID_ALPHABET
N2 = len(ALPHA) ** 2
N3 = len(ALPHA) ** 3
TOTAL = N2 + N3
RULE = (
    f"preparation: one sequential history of {TOTAL} allocations (all 51^2+51^3 suffixes of one date) through "
    "ZIDManager.get_next in a forked process until the explicit out-of-IDs error, recording zorg's own chain and "
    f"the persisted counter at chosen positions. Runs 0..{SHARDS - 1}: shards that re-enter the chain by state "
    "injection and check every ZID for uniqueness, form, alphabet, one-ZID-token lexing by both lexers and "
    "recognition by the compiler (100 per page). Other runs: seeded histories of 20-200 allocations over 3-5 "
    "dates split over processes/managers at seeded points, forward seeks to chain positions just before "
    "roll-overs and the end, and real db create/reindex of pages with new notes. evaluations = ZIDs allocated "
    "and checked; non-trivial = run crossed a roll-over or the 2->3 character extension, reached exhaustion, or "
    "mixed allocator and create/reindex allocations; distinct = distinct final next_ids.json states"
)
ASSUMPTIONS = [
    "dates are in 2000-2099 (two-digit year)",
    "next_ids.json is a JSON object keyed by YYMMDD; the VALUES are opaque to the harness (only values zorg itself wrote are ever injected)",
    "the order of suffixes is not constrained",
]

_EXCLUDED = set("IOQSgijlpqy")
_FORM = re.compile(r"^(\d{6})#([0-9A-Za-z]{2,3})$")
CHAIN_DAY = _real_dt.date(2031, 7, 9).toordinal()
SEEK_POS = sorted({9, 10, 50, 51, 52, 101, 102, N2 - 2, N2 - 1, N2, N2 + 1, N2 + 51, N2 + 2601, TOTAL - 3, TOTAL - 2, TOTAL - 1, TOTAL})

_PREP: Optional[dict] = None


def _bounds() -> list[int]:
    return [i * TOTAL // SHARDS for i in range(SHARDS + 1)]


def prepare(tier: str = "quick") -> dict:
    """The sequential full-chain history (once per check process; workers inherit it)."""
    global _PREP
    if _PREP is not None:
        return _PREP
    from ..runner import fresh_dir

    scratch = fresh_dir("c07-prepare")
    try:
        sim = core.Sim(os.path.join(scratch, "w"), seed=7, day=core.EPOCH_DAY)
        os.makedirs(os.path.join(sim.zdir, ".zorg"), exist_ok=True)
        positions = sorted(set(_bounds()) | set(SEEK_POS))
        o = sim.run({"op": "alloc_chain", "date": CHAIN_DAY, "positions": positions, "limit": TOTAL + 50}, budget=1800)
        prep: dict[str, Any] = {"status": o.status, "effects": len(o.effects)}
        if o.status == "ok":
            zids = o.ret["zids"]
            prep.update(
                {
                    "suffixes": [z[7:] for z in zids],
                    "n": len(zids),
                    "error": o.ret.get("error"),
                    "error_type": o.ret.get("error_type"),
                    "snapshots": {int(k): v for k, v in o.ret["snapshots"].items()},
                    "malformed": next((z for z in zids if not _FORM.match(z) or set(z[7:]) & _EXCLUDED), None),
                    "duplicate": _first_dup(zids),
                }
            )
        else:
            prep["exc"] = o.exc
        _PREP = prep
        return prep
    finally:
        shutil.rmtree(scratch, ignore_errors=True)


def _first_dup(zids: list[str]) -> Optional[str]:
    seen: set = set()
    for z in zids:
        if z in seen:
            return z
        seen.add(z)
    return None


def gen_case_idx(idx: int, rng: random.Random, tier: str) -> dict:
    if idx < SHARDS:
        b = _bounds()
        return {"kind": "shard", "shard": idx, "lo": b[idx], "hi": b[idx + 1], "date": CHAIN_DAY, "world": {"files": {}}}
    return gen_history(rng, tier)


def gen_case(rng: random.Random, tier: str) -> dict:  # pragma: no cover - runner uses gen_case_idx
    return gen_history(rng, tier)


def gen_history(rng: random.Random, tier: str) -> dict:
    base = _real_dt.date(2000 + rng.randrange(0, 100), rng.randint(1, 12), rng.randint(1, 28)).toordinal()
    dates = [base + rng.randrange(0, 40) for _ in range(rng.randint(3, 5))]
    if rng.random() < 0.3:
        dates[0] = _real_dt.date(2000 + rng.randrange(0, 100), 12, 31).toordinal()
    if rng.random() < 0.2:
        dates[-1] = _real_dt.date(rng.choice([2000, 2024, 2096]), 2, 29).toordinal()
    steps: list[dict] = []
    total = rng.randint(20, 200)
    while total > 0:
        x = rng.random()
        if x < 0.62:
            n = min(total, rng.randint(1, 30))
            steps.append({"op": "alloc", "dates": [rng.choice(dates) for _ in range(n)], "per_manager": rng.choice([1, 1, 2, 5, 0])})
            total -= n
        elif x < 0.80:
            steps.append({"op": "seek", "date": rng.choice(dates), "pos": rng.choice(SEEK_POS)})
        else:
            d = _real_dt.date.fromordinal(rng.choice(dates))
            k = rng.randint(1, 4)
            text = f"# Page {d.isoformat()}\n\n" + "".join(f"- {rng.choice(gen.PLAIN)} {rng.choice(gen.PLAIN)}\n" for _ in range(k))
            steps.append({"op": "index", "how": rng.choice(["create", "reindex"]), "name": f"p{len(steps)}.zo", "text": text, "date": d.toordinal(), "n": k})
            total -= k
    return {"kind": "history", "dates": dates, "steps": steps, "world": {"files": {}}, "day0": core.EPOCH_DAY}


def describe(case: dict) -> Any:
    if case["kind"] == "shard":
        return {k: case[k] for k in ("kind", "shard", "lo", "hi")}
    return {"kind": "history", "dates": case["dates"], "steps": case["steps"][:12], "n_steps": len(case["steps"])}


###############################################################################
# per-ZID oracle
###############################################################################

_LEXERS: dict[str, Any] = {}


def _lex_types(zid: str) -> dict[str, list[str]]:
    import antlr4

    core.init_worker()
    if not _LEXERS:
        from zorg.grammar.zorg_file.ZorgFileLexer import ZorgFileLexer
        from zorg.grammar.zorg_query.ZorgQueryLexer import ZorgQueryLexer

        _LEXERS["file"] = ZorgFileLexer
        _LEXERS["query"] = ZorgQueryLexer
    out = {}
    for name, cls in _LEXERS.items():
        lx = cls(antlr4.InputStream(zid))
        lx.removeErrorListeners()
        toks = []
        while True:
            t = lx.nextToken()
            if t.type == antlr4.Token.EOF:
                break
            toks.append("ZID" if t.type == cls.ZID else f"type{t.type}:{t.text}")
        out[name] = toks
    return out


def check_zids(zids: list[str], want_dates: list[int], seen: set, scratch: str, rec: hist.Rec) -> Optional[dict]:
    """Form, alphabet, date part, uniqueness, lexing, compilation."""
    for z, d in zip(zids, want_dates):
        m = _FORM.match(z)
        if not m:
            return hist.viol("zid-malformed", "-", zid=z)
        if set(m.group(2)) & _EXCLUDED:
            return hist.viol("zid-has-excluded-character", "-", zid=z)
        want = _real_dt.date.fromordinal(d).strftime("%y%m%d")
        if m.group(1) != want:
            return hist.viol("zid-date-part-wrong", "-", zid=z, want=want)
        if z in seen:
            return hist.viol("zid-allocated-twice", f"suffix-length-{len(m.group(2))}", zid=z)
        seen.add(z)
        toks = _lex_types(z)
        for name, tt in toks.items():
            if tt != ["ZID"]:
                return hist.viol(f"zid-not-one-token-in-{name}-lexer", f"suffix-length-{len(m.group(2))}", zid=z, tokens=tt)
        rec.stats["evaluations"] = rec.stats.get("evaluations", 0) + 1
    zdir = os.path.join(scratch, "zc")
    for i in range(0, len(zids), 100):
        batch = zids[i : i + 100]
        text = "# t\n\n" + "".join(f"- {z} w\n" for z in batch)
        user._write(os.path.join(zdir, "p.zo"), text)
        page = ob.compile_page(zdir, "p.zo")
        notes = page.notes
        if page.has_errors or len(notes) != len(batch):
            return hist.viol("zid-page-does-not-compile", "-", batch=batch[:3], has_errors=page.has_errors, notes=len(notes))
        for z, n in zip(batch, notes):
            if n.zid != z:
                return hist.viol("zid-not-recognised-by-compiler", f"suffix-length-{len(z) - 7}", zid=z, compiled_zid=n.zid)
            if n.create_date.strftime("%y%m%d") != z[:6]:
                return hist.viol("zid-create-date-wrong", "-", zid=z, create=str(n.create_date))
    return None


###############################################################################
# execution
###############################################################################


def _write_next_ids(sim: core.Sim, m: dict) -> None:
    user._write(os.path.join(sim.zdir, ".zorg", "next_ids.json"), json.dumps(m, indent=4))


def _read_next_ids(sim: core.Sim) -> dict:
    p = os.path.join(sim.zdir, ".zorg", "next_ids.json")
    if not os.path.exists(p):
        return {}
    with core._real_open(p) as f:
        return json.loads(f.read())


def _is_out_of_ids(exc: dict) -> bool:
    """The explicit out-of-IDs error, recognised structurally (a RuntimeError or one of
    zorg's own exception classes raised by the ZID manager module itself), never by its wording."""
    where = exc.get("where") or []
    ok_type = exc.get("type") == "RuntimeError" or str(exc.get("module", "")).startswith("zorg")
    return ok_type and bool(where) and where[-1][0].endswith("_zid_manager.py")


def execute(case: dict, scratch: str) -> dict:
    rec = hist.Rec()
    rec.stats["evaluations"] = 0
    prep = prepare()
    sim = hist.materialize(scratch, case)
    os.makedirs(os.path.join(sim.zdir, ".zorg"), exist_ok=True)
    if prep.get("status") != "ok":
        if case["kind"] == "shard" and case["shard"] == 0:
            exc = prep.get("exc") or {}
            return rec.result(hist.viol("allocation-crashed", f"{exc.get('type', prep.get('status'))}", where="full-chain history", msg=exc.get("msg")))
        return rec.result()
    if case["kind"] == "shard":
        return _execute_shard(case, sim, scratch, rec, prep)
    return _execute_history(case, sim, scratch, rec, prep)


def _chain_verdict(prep: dict) -> Optional[dict]:
    """Clauses judged on the sequential full-chain history (reported by shard 0)."""
    if prep["malformed"]:
        return hist.viol("zid-malformed", "full-chain", zid=prep["malformed"])
    if prep["duplicate"]:
        return hist.viol("zid-allocated-twice", f"suffix-length-{len(prep['duplicate']) - 7}", zid=prep["duplicate"], where="full-chain history")
    if prep["error"] is None:
        return hist.viol("no-out-of-ids-error", "-", allocated=prep["n"])
    if prep.get("error_type") != "RuntimeError":
        return hist.viol("exhaustion-error-not-explicit", f"{prep.get('error_type')}", error=prep["error"])
    if prep["n"] != TOTAL:
        return hist.viol("exhaustion-after-wrong-count", f"handed-out-{prep['n']}-of-{TOTAL}", last=prep["suffixes"][-1:])
    return None


def _execute_shard(case: dict, sim: core.Sim, scratch: str, rec: hist.Rec, prep: dict) -> dict:
    lo, hi, day = case["lo"], case["hi"], case["date"]
    key = _real_dt.date.fromordinal(day).strftime("%y%m%d")
    if case["shard"] == 0:
        rec.events.append({"chain": prep["n"], "error_type": prep.get("error_type")})
        rec.probe("exhaustion-reached", int(prep["error"] is not None))
        v = _chain_verdict(prep)
        if v:
            return rec.result(v)
        if len(set(len(s) for s in prep["suffixes"])) > 1:
            rec.probe("two-to-three-character-extension-crossed")
    if lo >= prep["n"] or lo not in prep["snapshots"]:
        rec.stat("shard-outside-the-chain")
        return rec.result()
    if prep["snapshots"][lo] is not None:
        _write_next_ids(sim, {key: prep["snapshots"][lo]})
    last = hi >= TOTAL
    n = min(hi, prep["n"]) - lo
    o = sim.run({"op": "alloc_until_error", "date": day, "limit": n + (5 if last else 0)}, budget=600)
    rec.stats["processes"] += 1
    rec.stats["effects"] += len(o.effects)
    if o.status != "ok":
        return rec.result(hist.viol("allocation-crashed", f"{(o.exc or {}).get('type')}", outcome=o.brief(), msg=(o.exc or {}).get("msg")))
    zids = o.ret["zids"]
    rec.events.append({"shard": case["shard"], "n": len(zids), "first": zids[:1], "last": zids[-1:], "error": o.ret["error"]})
    composes = [z[7:] for z in zids[:n]] == prep["suffixes"][lo : lo + n]
    rec.stat("shards-composed" if composes else "shard-does-not-reproduce-its-chain-segment")
    v = check_zids(zids, [day] * len(zids), set(), scratch, rec)
    if v:
        return rec.result(v)
    rec.probe("roll-over-crossed", int(any(z[-1] in "0Aa" for z in zids)))
    if not last:
        if o.ret["error"] is not None or len(zids) != n:
            return rec.result(hist.viol("allocation-failed-before-exhaustion", f"{o.ret.get('error_type')}", shard=case["shard"], allocated=len(zids), wanted=n, error=o.ret["error"]))
    elif composes:
        if o.ret["error"] is None or len(zids) != n:
            return rec.result(hist.viol("no-out-of-ids-error", "after-state-injection", allocated=len(zids), expected=n))
        # the error must persist: a restart does not hand out anything either
        o2 = sim.run({"op": "alloc_until_error", "date": day, "limit": 3})
        rec.stats["processes"] += 1
        if o2.status != "ok" or o2.ret["zids"] or o2.ret.get("error_type") != "RuntimeError":
            return rec.result(hist.viol("allocation-after-exhaustion", "-", outcome=o2.brief(), ret=o2.ret if o2.status == "ok" else None))
    rec.states.append(json.dumps(_read_next_ids(sim), sort_keys=True))
    return rec.result()


def _execute_history(case: dict, sim: core.Sim, scratch: str, rec: hist.Rec, prep: dict) -> dict:
    seen: set = set()
    pos: dict[int, int] = {}  # date -> number of suffixes of that date already handed out
    mixed = {"alloc": False, "index": False}

    def expect(dates: list[int]) -> tuple[int, bool]:
        """-> (how many of these allocations can succeed, whether the op must then fail)"""
        p = dict(pos)
        for i, d in enumerate(dates):
            if p.get(d, 0) >= prep["n"]:
                return i, True
            p[d] = p.get(d, 0) + 1
        return len(dates), False

    for i, st in enumerate(case["steps"]):
        if st["op"] == "seek":
            # state injection: move the persisted counter of one date FORWARD to a position of
            # zorg's own chain (never backwards: that would re-issue IDs by construction)
            d, target = st["date"], min(st["pos"], prep["n"])
            if target > pos.get(d, 0) and target in prep["snapshots"] and prep["snapshots"][target] is not None:
                key = _real_dt.date.fromordinal(d).strftime("%y%m%d")
                m = _read_next_ids(sim)
                m[key] = prep["snapshots"][target]
                _write_next_ids(sim, m)
                pos[d] = target
                rec.probe("seek-to-roll-over")
                rec.note("seek", date=key, pos=target)
            continue
        if st["op"] == "alloc":
            dates = st["dates"]
            ok_n, must_fail = expect(dates)
            o = sim.run(st)
            rec.proc({"op": "alloc", "n": len(dates), "per_manager": st["per_manager"]}, None, o)
        else:
            dates = [st["date"]] * st["n"]
            ok_n, must_fail = expect(dates)
            user._write(os.path.join(sim.zdir, st["name"]), st["text"])
            o = sim.run({"op": st["how"]})
            rec.proc({"op": st["how"]}, None, o)
        if o.status != "ok":
            exc = o.exc or {}
            if not _is_out_of_ids(exc):
                return rec.result(hist.viol("allocation-crashed" if st["op"] == "alloc" else "index-command-failed", f"{exc.get('type')}", step=i, outcome=o.brief(), msg=exc.get("msg")))
            if not must_fail:
                return rec.result(hist.viol("allocation-failed-before-exhaustion", "in-history", step=i, positions={str(k): v for k, v in pos.items()}, total=prep["n"]))
            rec.probe("exhaustion-reached-in-history")
            for d in dates[:ok_n]:
                pos[d] = pos.get(d, 0) + 1
            if st["op"] == "index":
                os.unlink(os.path.join(sim.zdir, st["name"]))
            continue
        if must_fail:
            return rec.result(hist.viol("no-out-of-ids-error", "in-history", step=i, positions={str(k): v for k, v in pos.items()}, total=prep["n"]))
        for d in dates:
            pos[d] = pos.get(d, 0) + 1
        if st["op"] == "alloc":
            mixed["alloc"] = True
            zids = o.ret
            want = dates[: len(zids)]
        else:
            mixed["index"] = True
            page = ob.compile_page(sim.zdir, st["name"])
            zids = [n.zid for n in page.notes]
            if any(z is None for z in zids):
                return rec.result(hist.viol("zid-not-recognised-by-compiler", "after-index-command", step=i, text=ob.read_all_files(sim.zdir)[st["name"]].decode()))
            want = [st["date"]] * len(zids)
        v = check_zids(zids, want, seen, scratch, rec)
        if v:
            v["detail"]["step"] = i
            return rec.result(v)
        rec.probe("roll-over-crossed", int(any(z[-1] in "0Aa" for z in zids)))
        rec.probe("two-to-three-character-extension-crossed", int(len({len(z) for z in zids}) > 1))
    rec.probe("allocator-and-index-commands-mixed", int(mixed["alloc"] and mixed["index"]))
    rec.states.append(json.dumps(_read_next_ids(sim), sort_keys=True))
    return rec.result()
