"""C10 -- `note move` relocates exactly one note and loses nothing.

Profile `ops-conformance`: the pre-states are reachable states of the real
system (pages that went through create, ZID write-back, stamping, earlier
moves and renames); every successful move is checked against a line-list
reference model.  No fault term in the statement: weakest fit (DESIGN 5).
"""

from __future__ import annotations

import os
import random
import re
from typing import Any, Optional

from .. import core, gen, history as hist, observers as ob, oracles, user
from . import _idx

ID = "C10"
LEVEL = "exploration"
RUNS = {"quick": 260, "thorough": 9000}
WALL_CAP = {"quick": 280, "thorough": 1500}
EVALS_FROM_STATS = True
RULE = (
    "case = seeded world (+ a template and pattern for missing destinations) + db create, then 1-4 steps "
    "of {note move ZID DEST [x|~], user edits + reindex, zorg file rename, day change}; before every move "
    "the world is brought to agreement by a plain reindex. Destinations: existing pages of every generated "
    "layout (trailing blank line or not, header-only, sections, ending in a section header), missing with "
    "and without matching template. evaluations = successful moves judged; non-trivial = multi-line note, "
    "ZID mentioned elsewhere on the source page, stamped note, inherited metadata made explicit, missing "
    "destination created from template, destination ending in a header, ...; distinct = distinct final "
    "world-state digest"
)

# Jinja drops one trailing newline: the first template renders to a page that ends
# with a newline, the second to a page that ends in a section header without one.
TEMPLATE = "# Template for moved notes\n#\n# not part of the output\n\n## {{ name }} page\n##\n## created from a template\n\n- template note {{ name }}\n\n"
TEMPLATE_HDR = "# Template two\n\n## {{ name }} log\n\n################################ Tail {{ name }}\n"

_EDIT_WEIGHTS = {"word_change": 6, "word_add": 6, "bullet_add": 4, "note_insert": 6, "kind_change": 3, "blank_insert": 2, "section_add": 2, "comment_add": 2}


def gen_case(rng: random.Random, tier: str) -> dict:
    feats = gen.pick_features(rng, allow_rare=False)
    for f in ("zid_mentions", "multiline", "header_tags", "tags", "props"):
        if rng.random() < 0.5 and f not in feats:
            feats.append(f)
    if rng.random() < 0.3:
        feats.append("zid3")  # 3-character ZIDs extending 2-character ones (after c10e)
    world = gen.gen_world(rng, feats=feats, pages=(2, 4), max_items=6, zid_mode=rng.choice(["all", "mix"]))
    world["files"]["tmpl/moved.zot"] = TEMPLATE
    world["files"]["tmpl/hdr.zot"] = TEMPLATE_HDR
    _add_earlier_mentions(rng, world)
    _add_lookalike_tags(rng, world)
    if rng.random() < 0.08:
        # a page with Windows line ends: "every other line unchanged" is about bytes
        rel = rng.choice(sorted(p for p in world["files"] if p.endswith(".zo")))
        world["files"][rel] = world["files"][rel].replace("\n", "\r\n")
    steps: list[dict] = []
    for _ in range(rng.randint(1, 4)):
        x = rng.random()
        if x < 0.6:
            dk = rng.random()
            # few names: a page created from its template by one move is the (existing,
            # pattern-matching) destination of a later one
            few = ["alpha", "bravo", "charlie"]
            if dk < 0.6:
                dest: Any = {"existing": rng.randrange(1000)}
            elif dk < 0.8:
                dest = {"missing": f"new/{rng.choice(few)}.zo"}
            elif dk < 0.92:
                dest = {"missing": f"hdr/{rng.choice(few)}.zo"}
            else:
                dest = {"missing": f"other/{rng.choice(few)}.zo"}
            # the .zo extension of the destination is optional on the command line
            dest["no_ext"] = rng.random() < 0.35
            steps.append({"op": "move", "note": rng.randrange(1000), "dest": dest, "marker": rng.choice([None, None, "x", "~"])})
        elif x < 0.8:
            steps.append(_idx.gen_user_step(rng, world["features"], _EDIT_WEIGHTS))
        elif x < 0.9:
            steps.append({"op": "rename", "src": rng.randrange(1000), "dst": rng.choice(gen.PAGE_NAMES) + "r" + str(rng.randrange(3))})
        else:
            steps.append({"op": "day", "days": rng.choice([1, 2, 40])})
    if rng.random() < 0.3:
        # two moves into the same page that the first of them creates from its template
        td = rng.choice(["new/", "hdr/"]) + rng.choice(["alpha", "bravo", "charlie"]) + ".zo"
        for _ in range(2):
            steps.insert(rng.randrange(len(steps) + 1), {"op": "move", "note": rng.randrange(1000), "dest": {"missing": td, "no_ext": rng.random() < 0.5}, "marker": rng.choice([None, "x", "~"])})
    if not any(s["op"] == "move" for s in steps):
        steps.append({"op": "move", "note": rng.randrange(1000), "dest": {"existing": rng.randrange(1000)}, "marker": None})
    return {
        "world": world,
        "steps": steps,
        "day0": core.EPOCH_DAY + rng.randrange(0, 300),
        "cfg": {"template_patterns": [[r"^new/(?P<name>[a-z]+)\.zo$", "tmpl/moved.zot"], [r"^hdr/(?P<name>[a-z]+)\.zo$", "tmpl/hdr.zot"]]},
    }


def _add_earlier_mentions(rng: random.Random, world: dict) -> None:
    """Mention a note's ZID as a plain word in an EARLIER item of the same page."""
    for rel in sorted(world["files"]):
        if not rel.endswith(".zo") or rng.random() > 0.35:
            continue
        lines = world["files"][rel].split("\n")
        its = user.items_of(lines)
        zidded = [(a, user.split_first(lines[a])["zid"]) for a, b in its]
        zidded = [(a, z) for a, z in zidded if z]
        if len(its) < 2 or not zidded:
            continue
        a, z = rng.choice(zidded)
        earlier = [x for x, _ in its if x < a]
        if not earlier:
            continue
        e = rng.choice(earlier)
        p = user.split_first(lines[e])
        if not p["words"]:
            continue
        p["words"].insert(rng.randint(1, len(p["words"])), z)
        p["words"].append("tail")
        lines[e] = user.join_first(p)
        world["files"][rel] = "\n".join(lines)


def _add_lookalike_tags(rng: random.Random, world: dict) -> None:
    """Give some notes a tag that merely resembles a tag they inherit from the
    page title (extension, prefix, punctuation), so that "already explicit" and
    "still only inherited" are told apart."""
    for rel in sorted(world["files"]):
        if not rel.endswith(".zo") or rng.random() > 0.4:
            continue
        lines = world["files"][rel].split("\n")
        its = user.items_of(lines)
        if not its or not lines[0].startswith("# "):
            continue
        sym = rng.choice("+#@%")
        name = rng.choice(["zorg", "work", "desk", "ann"])
        if f"{sym}{name}" not in lines[0].split():
            lines[0] = lines[0] + f" {sym}{name}"
        for a, b in rng.sample(its, k=min(len(its), rng.randint(1, 2))):
            look = rng.choice([f"{sym}{name}_cli", f"{sym}{name}2", f"{sym}{name[:-1]}", f"{sym}{name},", f"({sym}{name})", f"{sym}{name}_", f"x{sym}{name}"])
            p = user.split_first(lines[a])
            p["words"].append(look)
            lines[a] = user.join_first(p)
        world["files"][rel] = "\n".join(lines)


def describe(case: dict) -> Any:
    return {"files": case["world"]["files"], "steps": case["steps"]}


###############################################################################
# reference model
###############################################################################

_EXTRA = re.compile(r"^([#@%+][^\s]+|[^\s:]+::[^\s]*|\[\[[^\]]+\]\])$")


def note_lines(before_note: dict, marker: Optional[str], new_first_words: str) -> list[str]:
    raise NotImplementedError


def _only_blank_difference(R: list[str], D: list[str], k: int) -> bool:
    """R (result minus the note) equals D (old page) except for blank lines
    at the insertion point k."""
    p = 0
    while p < len(R) and p < len(D) and R[p] == D[p]:
        p += 1
    q = 0
    while q < len(R) - p and q < len(D) - p and R[len(R) - 1 - q] == D[len(D) - 1 - q]:
        q += 1
    mid_r, mid_d = R[p : len(R) - q], D[p : len(D) - q]
    if any(x.strip() for x in mid_r) or any(x.strip() for x in mid_d):
        return False
    if not mid_r and not mid_d:
        return True
    # the blank-only difference must touch the insertion point (blank lines equal
    # to their neighbours make the exact position of p ambiguous: allow the run)
    lo = p
    while lo > 0 and R[lo - 1].strip() == "":
        lo -= 1
    hi = p + len(mid_r)
    while hi < len(R) and R[hi].strip() == "":
        hi += 1
    return lo <= k <= hi


def judge_move(sim_before: dict, after_files: dict, note: dict, dest: str, dest_old_text: Optional[str], marker: Optional[str], rec: hist.Rec, sim: core.Sim) -> Optional[dict]:
    src = note["page"]
    zid = note["zid"]
    before_files = sim_before["files"]
    body_lines = note["body"].split("\n")
    # ------------------------------------------------------------- source
    s_old = before_files[src].split("\n")
    want_src = s_old[: note["line"] - 1] + s_old[note["line"] - 1 + len(body_lines) :]
    s_new = after_files.get(src)
    if s_new is None:
        return hist.viol("source-page-vanished", "-", page=src)
    cause = _src_cause(s_old, note)
    if s_new.split("\n") != want_src:
        return hist.viol("source-not-exactly-minus-note", cause, page=src, zid=zid, before=before_files[src], after=s_new, line=note["line"], body_lines=len(body_lines))
    # -------------------------------------------------------- destination
    d_new = after_files.get(dest)
    if d_new is None:
        return hist.viol("destination-missing-after-move", "-", page=dest)
    assert dest_old_text is not None
    D = dest_old_text.split("\n")
    N = d_new.split("\n")
    dcause = _dest_cause(dest_old_text)
    # locate the moved note: a first line starting with the kind char and containing the ZID as its own
    want_kind = marker or {None: "-", "OPEN_TODO": "o", "CLOSED_TODO": "x", "CANCELED_TODO": "~", "BLOCKED_TODO": "<", "PARENT_TODO": ">"}[note["status"]]
    cont = [c.rstrip("\r") for c in body_lines[1:]]
    hits = []
    for k, line in enumerate(N):
        p = ob.split_item_line(line)
        if p and p["zid"] == zid and [x.rstrip("\r") for x in N[k + 1 : k + 1 + len(cont)]] == cont:
            hits.append(k)
    if len(hits) != 1:
        return hist.viol("note-not-exactly-once-in-destination", dcause, page=dest, zid=zid, hits=hits, before=dest_old_text, after=d_new)
    k = hits[0]
    first = N[k].rstrip("\r")
    if first[0] != want_kind:
        return hist.viol("moved-note-kind-wrong", "-", first_line=first, want=want_kind)
    R = N[:k] + N[k + 1 + len(cont) :]
    if not _only_blank_difference(R, D, k):
        return hist.viol("destination-lines-changed", dcause, page=dest, before=dest_old_text, after=d_new, note_at=k + 1)
    # body: old first line text after the ZID must survive; tokens inserted directly after the ZID
    old_first = body_lines[0].rstrip("\r")
    oi = old_first.find(zid)
    old_rest = old_first[oi + len(zid) :].strip()
    ni = first.find(zid)
    new_after = first[ni + len(zid) :].strip()
    if not new_after.endswith(old_rest):
        return hist.viol("moved-note-text-changed", "-", before=old_first, after=first)
    extras = new_after[: len(new_after) - len(old_rest)].split()
    if any(not _EXTRA.match(x) for x in extras):
        return hist.viol("moved-note-text-changed", "unexpected-inserted-token", before=old_first, after=first, extras=extras)
    rec.probe("inherited-metadata-made-explicit", int(bool(extras)))
    return None


def _src_cause(s_old: list[str], note: dict) -> str:
    zid = note["zid"]
    mentions = [i for i, ln in enumerate(s_old) if f" {zid} " in ln or ln.endswith(" " + zid) or f"[{zid}]" in ln]
    own = note["line"] - 1
    feats = []
    if any(i < own for i in mentions):
        feats.append("zid-mentioned-earlier-on-page")
    if any(i > own for i in mentions if i != own):
        feats.append("zid-mentioned-later-on-page")
    if f" {zid} " not in s_old[own]:
        feats.append("zid-is-last-word-of-first-line")
    return "+".join(feats) or "regular"


def _dest_cause(text: str) -> str:
    lines = text.split("\n")
    tags = user.classify(lines)
    feats = []
    if not text.endswith("\n"):
        feats.append("no-trailing-newline")
    body = [t for t in tags if t != "blank"]
    if body and all(t == "head" for t in body):
        feats.append("header-only")
    last = next((t for t in reversed(tags) if t != "blank"), None)
    if last in ("h1", "h2", "h3", "h4"):
        feats.append("ends-with-section-header")
    if last in ("item", "cont") and not (len(lines) >= 2 and lines[-1] == "" and lines[-2] == ""):
        # no blank line after the last item
        if any(t == "blank" for t in tags[tags.index("item") :] if True) and _blank_after_item_before_end(tags):
            feats.append("earlier-block-gap")
    return "+".join(feats) or "regular"


def _blank_after_item_before_end(tags: list[str]) -> bool:
    seen_item = False
    for i, t in enumerate(tags[:-1]):
        if t in ("item", "cont"):
            seen_item = True
        elif t == "blank" and seen_item and any(x != "blank" for x in tags[i + 1 :]):
            return True
    return False


###############################################################################
# execution
###############################################################################


def _snapshot(sim: core.Sim) -> dict:
    return {"files": {k: v.decode("utf-8") for k, v in ob.read_files(sim.zdir).items()}}


def execute(case: dict, scratch: str) -> dict:
    rec = hist.Rec()
    rec.stats["evaluations"] = 0
    sim = hist.materialize(scratch, case)
    o = sim.run({"op": "create"})
    rec.proc({"op": "create"}, None, o, sim)
    if o.status != "ok":
        rec.stat("skipped:initial-create-failed")
        return rec.result()
    for i, st in enumerate(case["steps"]):
        op = st["op"]
        if op == "day":
            sim.day += st["days"]
            rec.stat("days", st["days"])
            continue
        if op == "user":
            reports = user.apply_edits(sim.zdir, st["edits"], sim.day)
            rec.note("user", reports=reports)
            continue
        if op == "rename":
            pages = ob.list_pages(sim.zdir)
            src = pages[st["src"] % len(pages)]
            if os.path.exists(os.path.join(sim.zdir, st["dst"] + ".zo")):
                continue
            real = {"op": "rename", "src": src[:-3], "dst": st["dst"]}
            o = sim.run(real)
            rec.proc(real, None, o, sim)
            continue
        if op != "move":
            continue
        # precondition: an indexed directory (index and files agree)
        o = sim.run({"op": "reindex"})
        rec.proc({"op": "reindex"}, None, o, sim)
        if o.status != "ok" or oracles.agreement_problems(sim):
            rec.stat("history-cut:could-not-reach-agreement-before-move")
            return rec.result()
        ci = ob.canon_index(sim.db_path)
        assert ci is not None
        keys = sorted(ci["notes"])
        if not keys:
            continue
        note = ci["notes"][keys[st["note"] % len(keys)]]
        pages = ob.list_pages(sim.zdir)
        if "existing" in st["dest"]:
            cands = [p for p in pages if p != note["page"]]
            if not cands:
                continue
            dest = cands[st["dest"]["existing"] % len(cands)]
        else:
            dest = st["dest"]["missing"]
            if dest == note["page"]:
                continue
            if os.path.exists(os.path.join(sim.zdir, dest)):
                rec.probe("destination-exists-and-matches-a-template-pattern")
        before = _snapshot(sim)
        dest_old = before["files"].get(dest)
        if dest_old is None:
            # what template initialisation alone would have produced
            twin = sim.clone(os.path.join(scratch, "tinit"))
            ot = twin.run({"op": "tinit", "path": dest})
            p = os.path.join(twin.zdir, dest)
            if ot.status == "ok" and os.path.exists(p):
                with core._real_open(p) as f:
                    dest_old = f.read()
                rec.probe("missing-destination-created-from-template")
            else:
                rec.probe("missing-destination-without-template")
            twin.destroy()
        arg = dest[:-3] if st["dest"].get("no_ext") else dest
        rec.probe("destination-named-without-extension", int(arg != dest))
        real = {"op": "move", "zid": note["zid"], "dest": arg, "marker": st.get("marker")}
        o = sim.run(real)
        rec.proc(real, None, o, sim)
        if o.status != "ok":
            rec.stat("move-raised:" + _idx.exc_cause(o))
            rec.note("move-raised", exc=o.exc)
            if dest_old is None:
                continue
            return rec.result(hist.viol("move-raised", _idx.exc_cause(o), step=i, op=real, msg=(o.exc or {}).get("msg")))
        after = _snapshot(sim)
        if o.ret != 0:
            rec.stat("move-reported-failure")
            if after["files"] != before["files"] and dest_old is not None:
                return rec.result(hist.viol("failed-move-changed-files", "-", step=i, op=real))
            continue
        rec.stats["evaluations"] += 1
        _move_probes(rec, note, before, dest_old, st)
        if dest_old is None:
            return rec.result(hist.viol("move-to-unmatched-missing-page-succeeded", "-", step=i, op=real))
        v = judge_move(before, after["files"], note, dest, dest_old, st.get("marker"), rec, sim)
        if v:
            v["detail"]["step"] = i
            v["detail"]["op"] = real
            return rec.result(v)
        for p in after["files"]:
            if p not in (note["page"], dest) and after["files"][p] != before["files"].get(p):
                return rec.result(hist.viol("other-file-changed", "-", step=i, page=p))
        # both pages still compile; ZIDs conserved; other notes unchanged; metadata superset
        for p in (note["page"], dest):
            if not p.endswith(".zo"):
                continue
            if not user._valid(sim.zdir, p):
                return rec.result(hist.viol("page-invalid-after-move", _dest_cause(dest_old) if p == dest else "source", step=i, page=p, text=after["files"][p]))
        cf = ob.canon_files(sim.zdir, sim.day, [p for p in (note["page"], dest)])
        by_zid_after: dict[str, list[dict]] = {}
        for n in cf["notes"].values():
            by_zid_after.setdefault(n["zid"], []).append(n)
        tw = sim.clone(os.path.join(scratch, "pre"))
        for p, text in before["files"].items():
            user._write(os.path.join(tw.zdir, p), text)
        if dest not in before["files"]:
            user._write(os.path.join(tw.zdir, dest), dest_old)
        cb = ob.canon_files(tw.zdir, sim.day, [note["page"], dest])
        tw.destroy()
        zb = sorted(str(n["zid"]) for n in cb["notes"].values())
        za = sorted(str(n["zid"]) for n in cf["notes"].values())
        if zb != za:
            return rec.result(hist.viol("zid-multiset-changed", "-", step=i, before=zb, after=za))
        for n in cb["notes"].values():
            m = by_zid_after.get(n["zid"], [None])[0]
            if m is None:
                continue
            if n["zid"] == note["zid"] and n["page"] == note["page"]:
                for f in ("areas", "contexts", "people", "projects"):
                    if not set(n[f]) <= set(m[f]):
                        return rec.result(hist.viol("moved-note-lost-metadata", f, step=i, before=n[f], after=m[f]))
                if not set(n["props"].items()) <= set(m["props"].items()):
                    return rec.result(hist.viol("moved-note-lost-metadata", "props", step=i, before=n["props"], after=m["props"]))
                continue
            for f in ("body", "status", "priority", "areas", "contexts", "people", "projects", "links", "props", "create", "modify", "section"):
                if n[f] != m[f]:
                    return rec.result(hist.viol("other-note-changed", f, step=i, zid=n["zid"], before=n[f], after=m[f]))
    return rec.result()


def _move_probes(rec: hist.Rec, note: dict, before: dict, dest_old: Optional[str], st: dict) -> None:
    rec.probe("multi-line-note-moved", int("\n" in note["body"]))
    rec.probe("crlf-source-page", int("\r\n" in before["files"][note["page"]]))
    rec.probe("crlf-destination-page", int(dest_old is not None and "\r\n" in dest_old))
    s_old = before["files"][note["page"]].split("\n")
    c = _src_cause(s_old, note)
    rec.probe("zid-mentioned-elsewhere-on-source-page", int("mentioned" in c))
    rec.probe("stamped-note-moved", int(bool(re.match(r"^\d{6} ", note["body"]))))
    rec.probe("marker-" + str(st.get("marker")))
    if dest_old is not None:
        dc = _dest_cause(dest_old)
        for f in dc.split("+"):
            rec.probe("destination-" + f)
