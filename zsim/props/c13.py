"""C13 -- re-running an interrupted index operation converges (crash sweep).

Level fault_enumeration: worlds and commands are sampled; inside each sampled
(world, command) *every* boundary between two consecutive external effects of
the uninterrupted ("golden") run is decided: kill there (real process death),
run the same command again, check convergence.  The thorough tier adds torn
variants (empty, and truncated at three points) of every file write; the quick
tier adds two of them (empty, one truncation) in half of its worlds.
"""

from __future__ import annotations

import os
import random
from typing import Any, Optional

from .. import core, gen, history as hist, observers as ob, oracles, user

ID = "C13"
LEVEL = "fault_enumeration"
RUNS = {"quick": 40, "thorough": 1200}
WALL_CAP = {"quick": 280, "thorough": 1500}
EVALS_FROM_STATS = True
RULE = (
    "case = seeded world brought to an indexed state (db create), then user edits (new notes "
    "without ZID, edited notes, new pages, >=1 changed page) and a day change, then command X in "
    "{db create, db reindex, db reindex <paths>} (or X = the very first db create). The golden run "
    "of X yields effects e_0..e_{n-1}; for EVERY k the world is copied, X is killed (os._exit in "
    "the child) before e_k and X is run again without faults (thorough: additionally torn-empty and "
    "three torn-prefix variants of every file write; quick: torn-empty and one torn-prefix in half of the worlds). evaluations = crash points decided; "
    "non-trivial = the crashed run had performed >=1 effect and left >=1 undone; distinct = "
    "distinct pairs (boundary class = command, fault kind, previous effect, next effect; digest of the "
    "world state the crash left behind). Worlds also include deleted/renamed pages, a whitelisted "
    "broken page (db create -f) and, in the thorough tier, a second kill during the rerun for ~15% of "
    "the crash points. Additional variants of a crash point: 1-2 user edits between kill and rerun "
    "(a quarter of the points of plain commands in half of the worlds) or the user undoing the edits "
    "made since the last indexing, for all pages or a seeded half (every point, other half of the "
    "plain worlds and all explicit-path worlds). After the rerun: completes, index == recompiled "
    "files, ZIDs kept and unique, user text kept, further reindex is a no-op and, without a "
    "between-step, pages == pages of the golden run modulo freshly allocated ZIDs"
)
ASSUMPTIONS = [
    "the crashed run follows the golden effect sequence up to the crash point (checked per boundary; mismatch = harness error)",
    "a database commit is one atomic effect; SQLite's own recovery handles the torn transaction",
    "worlds whose uninterrupted run does not itself end in agreement are skipped and counted (that is C05/C06/C11's business)",
]

_EDIT_WEIGHTS = {
    "word_change": 8,
    "word_add": 6,
    "bullet_add": 3,
    "kind_change": 4,
    "prio_change": 3,
    "note_insert": 12,
    "page_add": 4,
    "stamp_remove": 1,
    "cutpaste": 1,
    "section_add": 2,
    "title_edit": 1,
    "note_delete": 3,
    "page_delete": 2,
    "page_mv": 2,
    "word_remove": 2,
    "bullet_remove": 1,
    "section_delete": 1,
}

_BETWEEN_WEIGHTS = {"page_mv": 5, "page_delete": 4, "word_change": 3, "note_insert": 3, "note_delete": 2, "page_add": 1, "cutpaste": 1}

BROKEN_TAILS = ["stray words without a prefix", "O capital letter", "-no space after dash", " leading space"]


def gen_case(rng: random.Random, tier: str) -> dict:
    world = gen.gen_world(rng, pages=(1, 3), max_items=5, allow_rare=False)
    prior = rng.random() < 0.8
    # some worlds contain a page with a syntax error that is whitelisted (db create -f):
    # the fifth store, error_file_whitelist.txt, then carries state across the crash
    broken = None
    if rng.random() < 0.25:
        cands = [p for p, t in sorted(world["files"].items()) if any(ln[:2] in ("- ", "o ", "x ") for ln in t.split("\n")) and t.endswith("\n")]
        if cands:
            broken = rng.choice(cands)
            world["files"][broken] = world["files"][broken] + rng.choice(BROKEN_TAILS) + "\n"
    feats = world["features"]
    edits = []
    if prior:
        for _ in range(rng.randint(2, 6)):
            edits.append(gen.gen_edit(rng, feats, _EDIT_WEIGHTS))
    x = rng.random()
    if not prior or x < 0.25:
        cmd: dict[str, Any] = {"op": "create", "force": bool(broken) and (not prior or rng.random() < 0.5)}
    elif x < 0.7:
        cmd = {"op": "reindex"}
    else:
        cmd = {"op": "reindex", "paths": "all-existing"}
    # thorough: every torn variant of every write; quick: two variants in half of the worlds
    torn = "full" if tier == "thorough" else ("light" if rng.random() < 0.5 else "")
    return {
        "world": world,
        "prior": prior,
        "edits": edits,
        "days": rng.choice([0, 1, 1, 1, 7, 40]) if prior else 0,
        "cmd": cmd,
        "broken_page": broken,
        # the user does not wait for recovery: at about a quarter of the crash points a few
        # edits (incl. deleting / renaming pages) happen between the kill and the rerun
        # ... or the user undoes (all or some of) the edits made since the last indexing. Other
        # between-edits are not applied to explicit-path commands, so those always get the undo
        "between": [gen.gen_edit(rng, feats, _BETWEEN_WEIGHTS) for _ in range(rng.randint(1, 2))]
        if not prior or (rng.random() < 0.5 and not cmd.get("paths"))
        else [{"e": "undo_everything"} if rng.random() < 0.6 else {"e": "undo_everything", "some": rng.randrange(1 << 16)}],
        "between_salt": rng.randrange(4),
        # thorough: a second kill during the rerun at a seeded boundary, for a share of the crash points
        "second_crash": [rng.random() for _ in range(4)] if tier == "thorough" else [],
        "torn": torn,
        "torn_j": [round(rng.random(), 3), rng.randrange(100)],
        "day0": core.EPOCH_DAY + rng.randrange(0, 300),
    }


def describe(case: dict) -> Any:
    return {k: case[k] for k in ("world", "prior", "edits", "days", "cmd", "torn", "day0") if k in case}


def reductions(case: dict):  # type: ignore[no-untyped-def]
    import copy

    from ..runner import generic_reductions

    # restrict the sweep to the failing boundary first
    if case.get("only") is None and case.get("_failed_at") is not None:
        c = copy.deepcopy(case)
        c["only"] = case["_failed_at"]
        yield c
    for i in range(len(case.get("edits", []))):
        c = copy.deepcopy(case)
        del c["edits"][i]
        c["only"] = None if case.get("only") is None else {"fault_kind": case["only"]["fault_kind"], "cls": case["only"]["cls"]}
        yield c
    if case.get("days"):
        c = copy.deepcopy(case)
        c["days"] = 0
        yield c
    for c in generic_reductions(case):
        if c.get("only") is not None:
            c["only"] = {"fault_kind": case["only"]["fault_kind"], "cls": case["only"]["cls"]}
        yield c


def _store(path: str) -> str:
    if path.endswith((".zo", ".zoq", ".zot")):
        return "page"
    return path.rsplit("/", 1)[-1]


def _eff_class(e: Optional[dict]) -> str:
    if e is None:
        return "start"
    return f"{e['kind']}:{_store(e['path'])}"


def boundary_class(cmd: dict, effects: list[dict], k: int, fault_kind: str) -> str:
    prev = effects[k - 1] if k > 0 else None
    nxt = effects[k] if k < len(effects) else None
    name = cmd["op"] + ("-paths" if cmd.get("paths") else "")
    return f"{name}:{fault_kind}:{_eff_class(prev)}->{_eff_class(nxt) if nxt else 'end'}"


def _primary_zids(zdir: str) -> dict[str, list]:
    return _zids_of(ob.read_files(zdir, (".zo",)))


def _zids_of(files: dict) -> dict[str, list]:
    out: dict[str, list] = {}
    for rel, data in files.items():
        for i, line in enumerate(data.decode("utf-8", "replace").split("\n")):
            p = ob.split_item_line(line)
            if p and p["zid"]:
                out.setdefault(p["zid"], []).append([rel, i + 1])
    return out


def _pages_modulo_new_zids(zdir: str, before_zids: dict) -> dict[str, list[str]]:
    """The pages with every ZID that the command itself allocated replaced by a placeholder
    (which suffix a new note gets legitimately depends on where an interrupted run died)."""
    out: dict[str, list[str]] = {}
    for rel, data in ob.read_files(zdir, (".zo",)).items():
        lines = data.decode("utf-8", "replace").split("\n")
        for i, line in enumerate(lines):
            p = ob.split_item_line(line)
            if p and p["zid"] and p["zid"] not in before_zids:
                lines[i] = line.replace(p["zid"], p["zid"][:7] + "<new>", 1)
        out[rel] = lines
    return out


def _user_texts(zdir: str) -> dict[str, list[str]]:
    return {rel: ob.user_text(data.decode("utf-8", "replace")) for rel, data in ob.read_files(zdir, (".zo",)).items()}


def _resolve_cmd(sim: core.Sim, cmd: dict) -> dict:
    if cmd.get("paths") == "all-existing":
        return {"op": "reindex", "paths": ob.list_pages(sim.zdir)}
    return cmd


def execute(case: dict, scratch: str) -> dict:
    rec = hist.Rec()
    rec.stats["evaluations"] = 0
    sim = hist.materialize(scratch, case)
    if case.get("prior"):
        first = {"op": "create", "force": bool(case.get("broken_page"))}
        o = sim.run(first)
        rec.proc(first, None, o)
        if o.status != "ok":
            rec.stat("skipped:prior-create-failed")
            return rec.result()
        indexed_snapshot = ob.read_files(sim.zdir, (".zo",))  # what the index was built from
        reports = user.apply_edits(sim.zdir, case.get("edits", []), sim.day)
        rec.stat("edits_applied", sum(1 for r in reports if r.get("applied")))
        rec.stat("edits_discarded", sum(1 for r in reports if not r.get("applied")))
        sim.day += case.get("days", 0)
        rec.stat("days", case.get("days", 0))
    cmd = _resolve_cmd(sim, case["cmd"])
    before_text = _user_texts(sim.zdir)
    before_zids = _primary_zids(sim.zdir)

    # ---------------------------------------------------------------- golden
    golden = sim.clone(os.path.join(scratch, "golden"))
    og = golden.run(cmd)
    rec.proc(cmd, None, og, golden)
    if og.status != "ok":
        rec.stat("skipped:golden-failed")
        rec.stat("skipped:golden-failed:" + ((og.exc or {}).get("type") or og.status) + "@" + (((og.exc or {}).get("where") or [["", "?"]])[-1][1]))
        return rec.result()
    problems = oracles.agreement_problems(golden) or oracles.noop_reindex_problems(golden, os.path.join(scratch, "noop"))
    if problems:
        rec.stat("skipped:golden-not-in-agreement")
        rec.stat("skipped:golden-not-in-agreement:" + problems[0]["clause"])
        rec.note("golden-not-in-agreement", clause=problems[0]["clause"])
        return rec.result()
    effects = og.effects
    n = len(effects)
    pending_zid = any(e["kind"] == "write" and _store(e["path"]) == "page" for e in effects)
    rec.probe("world-with-page-write-back", int(pending_zid))
    rec.probe("world-with-two-or-more-page-write-backs", int(sum(1 for e in effects if e["kind"] == "write" and _store(e["path"]) == "page") >= 2))
    rec.probe("world-with-commit", int(any(e["kind"] == "commit" for e in effects)))
    rec.probe("world-with-whitelisted-broken-page", int(bool(case.get("broken_page"))))
    rec.probe("world-with-deleted-or-renamed-page", int(any(e.get("e") in ("page_delete", "page_mv") for e in case.get("edits", []))))
    golden_pages = _pages_modulo_new_zids(golden.zdir, before_zids)
    golden.destroy()

    # ----------------------------------------------------------------- sweep
    plans: list[dict] = []
    for k in range(n):
        plans.append({"kind": "crash-before", "k": k})
        if case.get("torn") and effects[k]["kind"] == "write":
            plans.append({"kind": "torn-empty", "k": k})
            if effects[k].get("size", 0) > 1:
                plans.append({"kind": "torn-prefix", "k": k, "j_mode": "frac", "j": case["torn_j"][0]})
                if case["torn"] in (True, "full"):
                    plans.append({"kind": "torn-prefix", "k": k, "j_mode": "line", "j": case["torn_j"][1]})
                    plans.append({"kind": "torn-prefix", "k": k, "j_mode": "minus1"})
    only = case.get("only")
    first_violation: Optional[dict] = None
    classes = set()
    # every crash point is decided with an immediate rerun; at a share of them (a quarter for
    # edits, half for "the user undoes the edits") ALSO with the user acting before the rerun
    is_undo = bool(case.get("between")) and case["between"][0].get("e") == "undo_everything"
    variants: list[tuple[dict, bool]] = []
    for i, plan in enumerate(plans):
        variants.append((plan, False))
        if case.get("between") and (is_undo or not cmd.get("paths")) and (len(plans) < 3 or (i + case.get("between_salt", 0)) % (1 if is_undo else 4) == 0):
            variants.append((plan, True))
    for plan, with_between in variants:
        cls = boundary_class(cmd, effects, plan["k"], plan["kind"])
        if only is not None:
            if with_between != ("+user-edits" in only["cls"]):
                continue
            if "k" in only:
                if plan != only["plan"]:
                    continue
            elif not (plan["kind"] == only["fault_kind"] and cls == only["cls"].split("+")[0]):
                continue
        twin = sim.clone(os.path.join(scratch, "twin"))
        try:
            oc = twin.run(cmd, fault=plan)
            rec.proc(cmd, plan, oc, twin)
            if oc.status != "crash":
                return rec.result(harness_error=f"fault plan {plan} did not fire: status={oc.status} effects={len(oc.effects)} golden={n}")
            done = oc.effects
            want = effects[: plan["k"]]
            if plan["kind"] != "crash-before":
                done = done[:-1]  # the torn record itself
            if [_strip(e) for e in done] != [_strip(e) for e in want]:
                return rec.result(harness_error=f"crashed run diverged from the golden effect prefix at plan {plan}: {done} vs {want}")
            rec.stats["evaluations"] += 1
            classes.add(cls)
            rec.probe("boundary:" + cls)
            rec.probe("nontrivial-boundary", int(0 < plan["k"]))
            if 0 < plan["k"]:
                # distinct non-trivial case = (boundary class, world state the crash left behind)
                rec.nontrivial.append(cls + "@" + rec.states[-1])
            bt, bz = before_text, before_zids
            # (not for explicit-path commands: those do not promise to notice deleted / renamed pages)
            if with_between:
                if is_undo:
                    # the user undoes every edit made since the directory was last indexed:
                    # all pages are byte-identical to what the index was built from again
                    reports = _undo_everything(twin, indexed_snapshot if case.get("prior") else None, case["between"][0].get("some"), content_only=bool(cmd.get("paths")))
                else:
                    reports = user.apply_edits(twin.zdir, case["between"], twin.day)
                if any(r.get("applied") for r in reports):
                    rec.probe("user-edits-between-kill-and-rerun")
                    rec.probe("user-undoes-all-edits-between-kill-and-rerun", int(any(r.get("undo") for r in reports)))
                    rec.probe("page-deleted-or-renamed-between-kill-and-rerun", int(any("deleted" in r or "renamed" in r for r in reports)))
                    cls = cls + "+user-edits"
                    bt, bz = _user_texts(twin.zdir), _primary_zids(twin.zdir)
                    rec.note("between", reports=reports)
                else:
                    continue  # nothing happened: the plain variant has already decided this point
            # thorough: for a share of the crash points the rerun is killed as well
            # (at a seeded boundary of ITS effect sequence) before the final rerun
            sc = case.get("second_crash") or []
            if sc and sc[plan["k"] % len(sc)] < 0.15:
                probe_twin = twin.clone(os.path.join(scratch, "probe"))
                opr = probe_twin.run(cmd)
                n2 = len(opr.effects)
                probe_twin.destroy()
                if opr.status == "ok" and n2 > 0:
                    k2 = int(sc[(plan["k"] + 1) % len(sc)] * n2) % n2
                    o2 = twin.run(cmd, fault={"kind": "crash-before", "k": k2})
                    rec.proc(cmd, {"kind": "crash-before", "k": k2, "second": True}, o2, twin)
                    if o2.status == "crash":
                        rec.probe("second-crash-during-rerun")
                        cls = cls + "+second-crash"
            rerun_cmd = cmd
            orr = twin.run(rerun_cmd)
            rec.proc(rerun_cmd, None, orr, twin)
            if orr.refused and "+user-edits" in cls and case.get("broken_page"):
                # the user renamed the whitelisted broken page: refusing it under its new
                # name is what C08 demands, not a failure to converge
                rec.stat("rerun-refused-legitimately")
                continue
            v = _judge(twin, orr, cls, plan, bt, bz, scratch, golden_pages if "+user-edits" not in cls else None)
            if v:
                v["detail"]["plan"] = plan
                v["detail"]["effects"] = [_eff_class(e) for e in effects]
                first_violation = v
                case["_failed_at"] = {"k": plan["k"], "plan": plan, "fault_kind": plan["kind"], "cls": cls}
                break
        finally:
            twin.destroy()
    rec.stat("boundary_classes", len(classes))
    return rec.result(first_violation)


def _undo_everything(twin: core.Sim, snapshot: Optional[dict], some: Optional[int] = None, content_only: bool = False) -> list[dict]:
    """Every page (or, with `some`, a seeded half of the pages) goes back to the bytes the index
    was built from. `content_only` (explicit-path commands, which do not promise to notice
    deleted / renamed pages): no page appears or disappears, only contents go back."""
    if not snapshot:
        return [{"applied": False, "why": "nothing was indexed before"}]
    now = ob.read_files(twin.zdir, (".zo",))
    want = dict(now)
    coin = random.Random(some)
    for rel in sorted(set(now) - set(snapshot)):
        if content_only or (some is not None and coin.random() < 0.5):
            continue
        del want[rel]
    for rel, data in sorted(snapshot.items()):
        if (content_only and rel not in now) or (some is not None and coin.random() < 0.5):
            continue
        want[rel] = data
    if any(len(w) > 1 for w in _zids_of(want).values()):
        # undoing half of a rename or of a cut-and-paste leaves the user with two copies of a
        # note (same ZID twice): that is the user's doing, outside the statement
        if some is not None:
            return _undo_everything(twin, snapshot, None, content_only)  # -> undo the rest too
        return [{"applied": False, "why": "the undo would duplicate a note"}]
    if want == now:
        return [{"applied": False}]
    for rel in sorted(set(now) - set(want)):
        os.unlink(os.path.join(twin.zdir, rel))
    for rel, data in sorted(want.items()):
        if now.get(rel) != data:
            os.makedirs(os.path.dirname(os.path.join(twin.zdir, rel)), exist_ok=True)
            with core._real_open(os.path.join(twin.zdir, rel), "wb") as f:
                f.write(data)
    rep: dict = {"applied": True, "undo": True}
    if set(now) != set(want):
        rep["deleted"] = True
    return [rep]


def _strip(e: dict) -> dict:
    return {k: v for k, v in e.items() if k in ("k", "kind", "path", "size", "sha")}


def _judge(twin: core.Sim, orr: core.Outcome, cls: str, plan: dict, before_text: dict, before_zids: dict, scratch: str, golden_pages: Optional[dict] = None) -> Optional[dict]:
    if orr.status != "ok":
        exc = orr.exc or {}
        where = exc["where"][-1][1] if exc.get("where") else "?"
        return hist.viol("rerun-failed", f"{cls}|{exc.get('type', orr.status)}@{where}", outcome=orr.brief(), msg=exc.get("msg"))
    # (d) no user text lost
    after_text = _user_texts(twin.zdir)
    for rel in sorted(set(before_text) | set(after_text)):
        if before_text.get(rel) != after_text.get(rel):
            return hist.viol("user-text-changed", cls, page=rel, before=before_text.get(rel), after=after_text.get(rel))
    # (c) ZIDs kept, none duplicated
    after_zids = _primary_zids(twin.zdir)
    for z, where in sorted(before_zids.items()):
        if z not in after_zids:
            return hist.viol("zid-lost", cls, zid=z, was_at=where)
    for z, where in sorted(after_zids.items()):
        if len(where) > 1:
            return hist.viol("zid-assigned-twice", cls, zid=z, at=where)
    # (b) agreement and quiescence
    problems = oracles.agreement_problems(twin)
    if problems:
        p = problems[0]
        return hist.viol("after-rerun:" + p["clause"], cls, problem=p, more=len(problems) - 1)
    problems = oracles.noop_reindex_problems(twin, os.path.join(scratch, "noop"))
    if problems:
        p = problems[0]
        return hist.viol("after-rerun:" + p["clause"], cls, problem=p, more=len(problems) - 1)
    # (a) "exactly as after an uninterrupted run": when nothing but the kill happened, the pages
    # (and, by the agreement just checked, the index) are those of the uninterrupted run, up to
    # which fresh ZID a new note received
    if golden_pages is not None:
        mine = _pages_modulo_new_zids(twin.zdir, before_zids)
        for rel in sorted(set(golden_pages) | set(mine)):
            g, m = golden_pages.get(rel), mine.get(rel)
            if g != m:
                i = next((i for i in range(min(len(g or []), len(m or []))) if g[i] != m[i]), None) if g and m else None
                what = "page-set" if g is None or m is None else ("modify-date" if i is not None and ob.user_text(g[i]) == ob.user_text(m[i]) else "text")
                return hist.viol("differs-from-uninterrupted-run:" + what, cls, page=rel, line=None if i is None else i + 1, uninterrupted=None if g is None else (g[i] if i is not None else g), rerun=None if m is None else (m[i] if i is not None else m))
    return None
