"""C05 -- after `db create`, index and files agree; files change only to gain ZIDs.

Profile `index-history`, fault-free: create on a generated directory, then
1-4 further create / reindex / reindex <paths> / day-change steps.
"""

from __future__ import annotations

import os
import random
import re
from typing import Any, Optional

from .. import core, gen, history as hist, observers as ob, oracles, user

ID = "C05"
LEVEL = "exploration"
RUNS = {"quick": 320, "thorough": 12000}
WALL_CAP = {"quick": 240, "thorough": 1500}
RULE = (
    "case = seeded world (1-4 generated pages, swarm feature subset) + schedule "
    "create, then 1-4 of {create, reindex, reindex <paths>, day change}; every step a real "
    "forked zorg process; non-trivial = at least one reach probe fired (ZID written back, long "
    "date replaced, priority + new ZID, multi-line item before another new ZID, equal basenames, "
    ">=2 dates allocated, ...); distinct = distinct final world-state digest "
    "(sha256 over all files, stores and the canonical index dump)"
)

_ZID_TOKEN = re.compile(r"(?<![^ ])(\d{6}#[0-9A-Za-z]{2,3})(?: |$)")
_LONG_LEAD = re.compile(r"^([-ox~<>] +(?:P\d +)?)(\d{4}-\d{2}-\d{2}) ")


_LONG_ONLY = re.compile(r"^([-ox~<>] (?:P\d )?)\d{4}-\d{2}-\d{2}$")


def _real_priority(line: str) -> Optional[str]:
    """The priority of an item first line per the grammar: todos only, exactly
    one space after the kind character, and followed by body text."""
    if line[0] == "-":
        return None
    m = re.match(r"^[ox~<>] (P\d) +\S", line)
    return m.group(1) if m else None


def norm_gap(line: str) -> str:
    """Collapse the spaces between the kind/priority prefix and the first body word."""
    prio = _real_priority(line)
    rest = line[2:]
    if prio:
        rest = rest[3:]
    return f"{line[0]} " + (prio + " " if prio else "") + rest.lstrip(" ")


def zid_insertion_problem(a: str, b: str) -> tuple[Optional[str], dict]:
    """Is line `b` line `a` with a ZID inserted after the kind/priority prefix
    (taking the place of a leading YYYY-MM-DD)?  -> (violated clause or None, info)"""
    info: dict[str, Any] = {}
    if a.endswith("\r") != b.endswith("\r"):
        return "line-ending-changed", info
    a, b = a.rstrip("\r"), b.rstrip("\r")
    if re.fullmatch(r"[-ox~<>]  *", a) or re.fullmatch(r"[ox~<>] P\d +", a):
        # the first line carries only the prefix: the ZID simply follows it
        info["zid"] = (b.split() or [""])[-1]
        ok = b.split()[:-1] == a.split() and bool(_ZID_TOKEN.search(b))
        return (None if ok else "zid-insertion-altered-line"), info
    m = _ZID_TOKEN.search(b)
    if not m:
        return "changed-line-has-no-zid", info
    info["zid"] = m.group(1)
    kind, prio = a[0], _real_priority(a)
    body = a[2:]
    if prio:
        body = body[3:]
        info["priority"] = prio
    body = body.lstrip(" ")
    lm = re.match(r"^\d{4}-\d{2}-\d{2}( |$)", body)
    if lm:
        body = body[lm.end() :]
        info["long_date"] = True
    want_head = f"{kind} " + (prio + " " if prio else "")
    # spaces between prefix, ZID and the first body word may shrink or stay
    # (the statement fixes where the ZID goes, not the spacing around it)
    got_head = re.sub(r" +", " ", b[: m.start(1)])
    got_tail = b[m.end(1) :].lstrip(" ").rstrip(" ")
    if got_head != want_head:
        return "zid-not-after-prefix", info
    if got_tail != body.lstrip(" ").rstrip(" "):
        return "zid-insertion-altered-line", info
    return None, info


def gen_case(rng: random.Random, tier: str) -> dict:
    world = gen.gen_world(rng, pages=(1, 4), max_items=7)
    steps: list[dict] = [{"op": "create"}]
    for _ in range(rng.randint(1, 4)):
        x = rng.random()
        if x < 0.3:
            steps.append({"op": "create"})
        elif x < 0.6:
            steps.append({"op": "reindex"})
        elif x < 0.72:
            paths = sorted(world["files"])
            k = rng.randint(1, len(paths))
            steps.append({"op": "reindex", "paths": rng.sample(paths, k)})
        elif x < 0.8:
            # an editor session in which the user changes nothing (EditorClosedEvent -> reindex)
            steps.append({"op": "edit", "paths": [rng.choice(sorted(world["files"]))], "sessions": [{"edits": []}]})
        else:
            steps.append({"op": "day", "days": rng.choice([1, 1, 2, 30, 365, -1, -3])})  # negative: the clock is set back
    for st in steps:
        if st["op"] in ("create", "reindex") and rng.random() < 0.06:
            st["tick"] = rng.randrange(0, 8)  # fault: midnight strikes during the command
    return {"world": world, "steps": steps, "day0": core.EPOCH_DAY + rng.randrange(0, 400)}


def describe(case: dict) -> Any:
    return {"files": case["world"]["files"], "features": case["world"].get("features"), "steps": case["steps"], "day0": case["day0"]}


def _shape_of(orig_files: dict, page: str, line: int) -> str:
    text = orig_files.get(page)
    if text is None:
        return "no-such-page"
    lines = text.split("\n")
    if not (1 <= line <= len(lines)):
        return "no-such-line"
    return "+".join(sorted(oracles.first_line_shape(lines[line - 1])))


def explain_diff(orig: dict, new: dict, orig_canon: dict, rec: hist.Rec) -> Optional[dict]:
    """Every changed line must be the first line of a note that lacked a ZID,
    and must equal the old line with `<zid> ` inserted after the prefix (a
    leading long date giving way to it)."""
    lacking = {key for key, n in orig_canon["notes"].items() if n["zid"] is None}
    for rel in sorted(set(orig) | set(new)):
        if rel not in new:
            return hist.viol("file-disappeared", page=rel)
        if rel not in orig:
            return hist.viol("file-appeared", page=rel)
        if orig[rel] == new[rel]:
            continue
        o_lines, n_lines = orig[rel].split("\n"), new[rel].split("\n")
        if orig[rel].replace("\r\n", "\n") != orig[rel] and new[rel] == new[rel].replace("\r\n", "\n"):
            # line ends rewritten: compare modulo that, but it is a byte change
            if any((rel, i + 1) not in lacking for i, (a, b) in enumerate(zip(o_lines, n_lines)) if a != b):
                return hist.viol("file-changed-elsewhere", "crlf-page", page=rel)
        if len(o_lines) != len(n_lines):
            return hist.viol("file-line-count-changed", _shape_of(orig, rel, 1), page=rel, before=orig[rel], after=new[rel])
        for i, (a, b) in enumerate(zip(o_lines, n_lines)):
            if a == b:
                continue
            key = (rel, i + 1)
            shape = "+".join(sorted(oracles.first_line_shape(a)))
            if key not in lacking:
                return hist.viol("file-changed-elsewhere", shape, page=rel, line=i + 1, before=a, after=b)
            clause, info = zid_insertion_problem(a, b)
            if info.get("long_date"):
                rec.probe("long-date-replaced")
            if clause:
                return hist.viol(clause, shape, page=rel, line=i + 1, before=a, after=b)
            if info.get("priority"):
                rec.probe("priority-and-new-zid")
            rec.probe("zid-written-back")
    return None


def _first_agreement_violation(problems: list[dict], orig_text: dict) -> Optional[dict]:
    if not problems:
        return None
    p = problems[0]
    key = p.get("key") or (p.get("keys") or [[None, None]])[0]
    cause = "-"
    if key and key[0] is not None:
        cause = _shape_of(orig_text, key[0], key[1])
    return hist.viol(p["clause"], cause, problem=p, more=len(problems) - 1)


def execute(case: dict, scratch: str) -> dict:
    rec = hist.Rec()
    sim = hist.materialize(scratch, case)
    orig_bytes = ob.read_all_files(sim.zdir)
    orig_text = {k: v.decode("utf-8") for k, v in orig_bytes.items()}
    orig_canon = ob.canon_files(sim.zdir, sim.day)
    zids = [n["zid"] for n in orig_canon["notes"].values() if n["zid"]]
    if len(zids) != len(set(zids)):
        # generator miss: a look-alike first word (`o P1 <mention> ...`) turned a
        # mentioned ZID into the note's own one; duplicate ZIDs in the INPUT are
        # outside the statement
        rec.stat("skipped:generated-world-has-duplicate-zids")
        return rec.result()
    _world_probes(case, orig_canon, rec)

    created = False
    baseline_files: Optional[dict] = None
    baseline_index: Optional[str] = None
    for i, st in enumerate(case["steps"]):
        if st["op"] == "day":
            sim.day += st["days"]
            rec.stat("days", st["days"])
            rec.note("day", days=st["days"])
            rec.probe("day-change-after-create", int(created))
            rec.probe("fault:clock-set-back", int(st["days"] < 0))
            continue
        fault = {"kind": "midnight-tick", "after": st["tick"]} if st.get("tick") is not None else None
        o = sim.run({k: v for k, v in st.items() if k != "tick"}, fault=fault)
        if fault and o.clock_reads > st["tick"]:
            sim.day += 1
            rec.probe("fault:midnight-tick")
            rec.stat("days", 1)
        rec.proc(st, fault, o, sim)
        if o.status != "ok":
            return rec.result(hist.viol("command-failed", _exc_cause(o), step=i, op=st, outcome=o.brief(), msg=(o.exc or {}).get("msg")))
        if not created:
            if st["op"] != "create":
                # minimiser removed the create: reindex on a fresh dir is a create-like run
                pass
            created = True
            new_text = {k: v.decode("utf-8") for k, v in ob.read_all_files(sim.zdir).items()}
            v = explain_diff(orig_text, new_text, orig_canon, rec)
            if v:
                return rec.result(v)
            v = _first_agreement_violation(oracles.agreement_problems(sim), orig_text)
            if v:
                return rec.result(v)
            baseline_files = ob.read_all_files(sim.zdir)
            baseline_index = ob.canon_digest(ob.canon_index(sim.db_path))
            dates = {n["create"] for k, n in orig_canon["notes"].items() if n["zid"] is None}
            rec.probe("two-or-more-dates-allocated", int(len(dates) >= 2))
        else:
            files = ob.read_all_files(sim.zdir)
            for rel in sorted(set(files) | set(baseline_files or {})):
                if files.get(rel) != (baseline_files or {}).get(rel):
                    return rec.result(
                        hist.viol("rerun-changed-file", st["op"], step=i, op=st, page=rel,
                                  before=oracles._txt((baseline_files or {}).get(rel)), after=oracles._txt(files.get(rel)))
                    )
            ci = ob.canon_index(sim.db_path)
            if ob.canon_digest(ci) != baseline_index:
                return rec.result(hist.viol("rerun-changed-index", st["op"], step=i, op=st))
            rec.probe("rerun-" + st["op"] + ("-paths" if st.get("paths") and st["op"] == "reindex" else ""))
    return rec.result()


def _exc_cause(o: core.Outcome) -> str:
    if o.exc:
        w = o.exc["where"][-1][1] if o.exc.get("where") else "?"
        return f"{o.exc['type']}@{w}"
    return o.status


def _world_probes(case: dict, canon: dict, rec: hist.Rec) -> None:
    files = case["world"]["files"]
    bases = [p.rsplit("/", 1)[-1] for p in files]
    rec.probe("equal-basenames", int(len(set(bases)) < len(bases)))
    rec.probe("subdirectory-page", int(any("/" in p for p in files)))
    rec.probe("page-without-notes", sum(1 for p in files if not any(k[0] == p for k in canon["notes"])))
    lacking = sorted(k for k, n in canon["notes"].items() if n["zid"] is None)
    rec.probe("notes-lacking-zid", len(lacking))
    for (p, ln) in lacking:
        n = canon["notes"][(p, ln)]
        if "\n" in n["body"]:
            later = [k for k in lacking if k[0] == p and k[1] > ln]
            rec.probe("multiline-new-note-before-another-new-note", int(bool(later)))
    for rel, text in files.items():
        for line in text.split("\n"):
            sh = oracles.first_line_shape(line)
            if "multi-space-after-kind" in sh:
                rec.probe("double-space-after-prefix")
            if "crlf" in sh:
                rec.probe("crlf-item")
