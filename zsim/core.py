"""zsim core: simulated clock, effect tap with fault plans, forked zorg processes.

Terminology
-----------
world     a scratch directory ``<root>/org`` (the notes directory, with its
          ``.zorg`` stores inside) living on tmpfs.
op        a JSON-able dict describing one zorg invocation (``{"op": "reindex",
          "paths": [...]}``).  Ops are data so that schedules can be written to
          replay files and shrunk by delta debugging.
effect    one external effect of a zorg process on the world: a file write
          (open-for-write .. close), create, unlink, rename, mkdir or a
          database commit that carries changes.
fault     a plan ``{"kind": "crash-before" | "torn-empty" | "torn-prefix",
          "k": <effect index>, ...}`` executed by the tap inside the child by
          calling ``os._exit(137)``: real process death, no unwinding.
"""

from __future__ import annotations

import builtins
import datetime as _real_dt
import hashlib
import io
import json
import os
import pathlib
import random
import select
import shutil
import signal
import sys
import time
import traceback
import types
from typing import Any, Callable, Optional

CRASH_EXIT = 137
EPOCH_DAY = _real_dt.date(2024, 5, 11).toordinal()

###############################################################################
# simulated clock
###############################################################################


class _Clock:
    ordinal: int = EPOCH_DAY
    # fault "midnight-tick": the day advances by one after this many clock reads
    # of the current process (None = the clock stands still during a process)
    tick_after: Optional[int] = None
    reads: int = 0

    def read(self) -> int:
        """One read of the clock by zorg: -> the ordinal it sees."""
        self.reads += 1
        if self.tick_after is not None and self.reads > self.tick_after:
            return self.ordinal + 1
        return self.ordinal


CLOCK = _Clock()


def set_day(ordinal: int) -> None:
    CLOCK.ordinal = int(ordinal)


def sim_today() -> _real_dt.date:
    return _real_dt.date.fromordinal(CLOCK.ordinal)


class _InstMeta(type):
    """isinstance(x, SimDate) is true for every real date (and likewise)."""

    def __instancecheck__(cls, inst: Any) -> bool:
        return isinstance(inst, cls.__mro__[1])

    def __subclasscheck__(cls, sub: Any) -> bool:
        return issubclass(sub, cls.__mro__[1])


class SimDate(_real_dt.date, metaclass=_InstMeta):
    @classmethod
    def today(cls) -> _real_dt.date:  # type: ignore[override]
        return _real_dt.date.fromordinal(CLOCK.read())


class SimDateTime(_real_dt.datetime, metaclass=_InstMeta):
    @classmethod
    def now(cls, tz: Any = None) -> _real_dt.datetime:  # type: ignore[override]
        o = CLOCK.read()
        d = _real_dt.date.fromordinal(o)
        if o != CLOCK.ordinal:
            return _real_dt.datetime(d.year, d.month, d.day, 0, 0, 1, tzinfo=tz)
        return _real_dt.datetime(d.year, d.month, d.day, 12, 0, 0, tzinfo=tz)

    @classmethod
    def today(cls) -> _real_dt.datetime:  # type: ignore[override]
        return cls.now()

    @classmethod
    def utcnow(cls) -> _real_dt.datetime:  # type: ignore[override]
        return cls.now()


def _make_dt_shim() -> types.ModuleType:
    shim = types.ModuleType("datetime")
    shim.__dict__.update(
        {k: v for k, v in _real_dt.__dict__.items() if not k.startswith("__")}
    )
    shim.date = SimDate  # type: ignore[attr-defined]
    shim.datetime = SimDateTime  # type: ignore[attr-defined]
    return shim


DT_SHIM = _make_dt_shim()


class _NullLogger:
    def __getattr__(self, name: str) -> Any:
        if name == "bind" or name == "bind_fargs":
            return lambda *a, **k: self
        return _noop


def _noop(*a: Any, **k: Any) -> None:
    return None


###############################################################################
# worker initialisation (once per worker process, before any fork)
###############################################################################

_INITIALISED = False
TAP: Optional["Tap"] = None  # set only inside a forked child
PATCHED_MODULES: list[str] = []


def init_worker() -> None:
    """Import zorg, install the clock shim / null loggers / commit listener."""
    global _INITIALISED
    if _INITIALISED:
        return
    import importlib
    import pkgutil

    import zorg  # noqa: F401

    # import every non-grammar zorg module so that all `dt` names exist
    for m in pkgutil.walk_packages(zorg.__path__, "zorg."):
        if ".grammar." in m.name and not m.ispkg:
            # lexers/parsers are imported on demand by the compiler package
            continue
        if m.name.endswith("__main__"):
            continue
        try:
            importlib.import_module(m.name)
        except Exception:  # pragma: no cover - optional module
            pass

    for name, mod in sorted(sys.modules.items()):
        if not (name == "zorg" or name.startswith("zorg.")) or mod is None:
            continue
        patched = False
        for attr, val in list(vars(mod).items()):
            if val is _real_dt:
                setattr(mod, attr, DT_SHIM)
                patched = True
            elif val is _real_dt.date:
                setattr(mod, attr, SimDate)
                patched = True
            elif val is _real_dt.datetime:
                setattr(mod, attr, SimDateTime)
                patched = True
        if patched:
            PATCHED_MODULES.append(name)
        if hasattr(mod, "_LOGGER"):
            setattr(mod, "_LOGGER", _NullLogger())

    # pre-configure SQLAlchemy mappers so children inherit them
    from sqlalchemy import event
    from sqlalchemy.engine import Engine
    from sqlalchemy.orm import configure_mappers

    import zorg.storage.sql._models  # noqa: F401

    configure_mappers()

    def _on_commit(conn: Any) -> None:
        tap = TAP
        if tap is None:
            return
        try:
            dbapi = conn.connection.dbapi_connection
            dirty = bool(dbapi.in_transaction)
        except Exception:
            dirty = True
        if dirty:
            k = tap.begin("commit", "<db>")
            tap.record(k, "commit", "<db>")

    event.listen(Engine, "commit", _on_commit)

    # tqdm progress bars cost time and only produce noise
    try:
        import zorg.service.handlers as _h

        _h.tqdm = lambda it, **kw: it  # type: ignore[attr-defined]
    except Exception:
        pass

    # self-test of the clock seam
    import zorg.service.handlers as h
    import zorg.service.compiler._file_compiler as fc

    saved = CLOCK.ordinal
    set_day(EPOCH_DAY + 3)
    assert h.dt.date.today() == _real_dt.date.fromordinal(EPOCH_DAY + 3)
    assert fc.dt.date.today() == _real_dt.date.fromordinal(EPOCH_DAY + 3)
    assert type(h.dt.date.today()) is _real_dt.date
    set_day(saved)
    _INITIALISED = True


###############################################################################
# the effect tap (lives in the child)
###############################################################################

_real_open = builtins.open
_real_io_open = io.open
_real_os = {
    name: getattr(os, name)
    for name in (
        "rename",
        "replace",
        "unlink",
        "remove",
        "mkdir",
        "rmdir",
        "open",
        "truncate",
    )
}


class TapFile:
    """Proxy for a file opened for writing inside the world.

    Data is buffered until close(), then written through the real file object
    in one go; this mirrors what a small buffered write does (nothing reaches
    the disk before close/flush) and lets the tap tear the write.
    """

    def __init__(self, real: Any, k: int, rel: str, tap: "Tap", binary: bool):
        self._real = real
        self._k = k
        self._rel = rel
        self._tap = tap
        self._binary = binary
        self._chunks: list[Any] = []
        self._closed = False

    # -- file API used by zorg / json / pathlib
    def write(self, data: Any) -> int:
        self._chunks.append(data)
        return len(data)

    def writelines(self, lines: Any) -> None:
        for line in lines:
            self.write(line)

    def flush(self) -> None:
        return None

    def close(self) -> None:
        if self._closed:
            return
        self._closed = True
        data = (b"" if self._binary else "").join(self._chunks)
        plan = self._tap.plan
        if plan and plan.get("k") == self._k and plan["kind"] == "torn-prefix":
            j = _tear_point(data, plan)
            self._real.write(data[:j])
            self._real.flush()
            self._tap.record(self._k, "write", self._rel, data=data[:j], torn=j)
            self._tap.die()
        self._real.write(data)
        self._real.close()
        self._tap.record(self._k, "write", self._rel, data=data)

    @property
    def closed(self) -> bool:
        return self._closed

    def __enter__(self) -> "TapFile":
        return self

    def __exit__(self, *exc: Any) -> None:
        self.close()

    def __getattr__(self, name: str) -> Any:
        return getattr(self._real, name)

    def __del__(self) -> None:
        try:
            self.close()
        except Exception:
            pass


def _tear_point(data: Any, plan: dict) -> int:
    n = len(data)
    if n <= 1:
        return 0
    mode = plan.get("j_mode", "frac")
    if mode == "minus1":
        return n - 1
    if mode == "line":
        nl = b"\n" if isinstance(data, bytes) else "\n"
        cuts = [i + 1 for i in range(n - 1) if data[i : i + 1] == nl]
        if cuts:
            return cuts[int(plan.get("j", 0)) % len(cuts)]
    frac = float(plan.get("j", 0.5))
    return max(1, min(n - 1, int(n * frac)))


class Tap:
    def __init__(self, root: str, log_fd: int, plan: Optional[dict]):
        self.root = os.path.realpath(root).rstrip("/") + "/"
        self.log_fd = log_fd
        self.plan = plan
        self.n = 0

    def rel(self, path: Any) -> Optional[str]:
        try:
            p = os.fspath(path)
        except TypeError:
            return None
        if isinstance(p, bytes):
            p = p.decode("utf-8", "surrogateescape")
        p = os.path.abspath(p)
        if (p + "/").startswith(self.root):
            return p[len(self.root) :]
        return None

    def begin(self, kind: str, rel: str) -> int:
        k = self.n
        self.n += 1
        plan = self.plan
        if plan and plan.get("k") == k and plan["kind"] == "crash-before":
            self.die()
        return k

    def record(self, k: int, kind: str, rel: str, data: Any = None, **extra: Any) -> None:
        rec: dict[str, Any] = {"k": k, "kind": kind, "path": rel}
        if data is not None:
            raw = data if isinstance(data, bytes) else data.encode("utf-8", "surrogateescape")
            rec["size"] = len(raw)
            rec["sha"] = hashlib.sha256(raw).hexdigest()[:16]
        rec.update(extra)
        os.write(self.log_fd, (json.dumps(rec, sort_keys=True) + "\n").encode())

    def die(self) -> None:
        os._exit(CRASH_EXIT)


def _is_write_mode(mode: str) -> bool:
    return any(c in mode for c in "wax+")


def _install_tap(tap: Tap) -> None:
    global TAP
    TAP = tap

    def tapped_open(file: Any, mode: str = "r", *a: Any, **kw: Any) -> Any:
        if isinstance(file, int) or not _is_write_mode(mode):
            return _real_open(file, mode, *a, **kw)
        rel = tap.rel(file)
        if rel is None:
            return _real_open(file, mode, *a, **kw)
        k = tap.begin("write", rel)
        real = _real_open(file, mode, *a, **kw)
        plan = tap.plan
        if plan and plan.get("k") == k and plan["kind"] == "torn-empty":
            tap.record(k, "write", rel, data="", torn=0)
            tap.die()
        return TapFile(real, k, rel, tap, "b" in mode)

    builtins.open = tapped_open  # type: ignore[assignment]
    io.open = tapped_open  # type: ignore[assignment]

    def wrap2(name: str) -> Callable[..., Any]:
        real = _real_os[name]

        def f(src: Any, dst: Any, *a: Any, **kw: Any) -> Any:
            rs, rd = tap.rel(src), tap.rel(dst)
            if rs is None and rd is None:
                return real(src, dst, *a, **kw)
            k = tap.begin(name, f"{rs}->{rd}")
            out = real(src, dst, *a, **kw)
            tap.record(k, name, f"{rs}->{rd}")
            return out

        return f

    def wrap1(name: str, will_change: Callable[[Any], bool]) -> Callable[..., Any]:
        real = _real_os[name]

        def f(path: Any, *a: Any, **kw: Any) -> Any:
            rel = tap.rel(path)
            if rel is None or not will_change(path):
                return real(path, *a, **kw)
            k = tap.begin(name, rel)
            out = real(path, *a, **kw)
            tap.record(k, name, rel)
            return out

        return f

    os.rename = wrap2("rename")  # type: ignore[assignment]
    os.replace = wrap2("replace")  # type: ignore[assignment]
    exists = os.path.lexists
    os.unlink = wrap1("unlink", exists)  # type: ignore[assignment]
    os.remove = wrap1("remove", exists)  # type: ignore[assignment]
    os.rmdir = wrap1("rmdir", exists)  # type: ignore[assignment]
    os.mkdir = wrap1("mkdir", lambda p: not exists(p))  # type: ignore[assignment]
    os.truncate = wrap1("truncate", exists)  # type: ignore[assignment]

    real_os_open = _real_os["open"]

    def tapped_os_open(path: Any, flags: int, *a: Any, **kw: Any) -> Any:
        rel = tap.rel(path)
        creates = bool(flags & os.O_CREAT) and not exists(path)
        truncs = bool(flags & os.O_TRUNC) and exists(path)
        if rel is None or not (creates or truncs):
            return real_os_open(path, flags, *a, **kw)
        kind = "create" if creates else "trunc"
        k = tap.begin(kind, rel)
        out = real_os_open(path, flags, *a, **kw)
        tap.record(k, kind, rel)
        return out

    os.open = tapped_os_open  # type: ignore[assignment]


def _install_dirent_order(mode: str, seed: int) -> None:
    """Return rglob/glob results in a seeded order (sorted/reversed/shuffled)."""
    if mode == "native":
        return
    real_rglob = pathlib.Path.rglob
    real_glob = pathlib.Path.glob
    counter = [0]

    def order(items: list) -> list:
        items = sorted(items, key=str)
        if mode == "reversed":
            items.reverse()
        elif mode == "shuffled":
            counter[0] += 1
            random.Random(seed * 1000003 + counter[0]).shuffle(items)
        return items

    def rglob(self: Any, pattern: str, **kw: Any) -> Any:
        return iter(order(list(real_rglob(self, pattern, **kw))))

    def glob(self: Any, pattern: str, **kw: Any) -> Any:
        return iter(order(list(real_glob(self, pattern, **kw))))

    pathlib.Path.rglob = rglob  # type: ignore[assignment]
    pathlib.Path.glob = glob  # type: ignore[assignment]


###############################################################################
# outcome of a simulated process
###############################################################################


class Outcome:
    __slots__ = ("status", "ret", "exc", "effects", "wall", "out_path", "clock_reads")

    def __init__(self) -> None:
        self.status = "?"  # ok | exc | crash | hang | died
        self.ret: Any = None
        self.exc: Optional[dict] = None
        self.effects: list[dict] = []
        self.wall = 0.0
        self.out_path = ""
        self.clock_reads = 0

    def brief(self) -> dict:
        d: dict[str, Any] = {"status": self.status}
        if self.status == "ok" and isinstance(self.ret, (int, str, type(None))):
            d["ret"] = self.ret
        if self.exc:
            d["exc"] = {
                "type": self.exc["type"],
                "where": self.exc["where"][-1] if self.exc["where"] else None,
            }
        d["effects"] = [
            {k: v for k, v in e.items() if k in ("k", "kind", "path", "size", "sha", "torn")}
            for e in self.effects
        ]
        return d

    @property
    def refused(self) -> bool:
        """A RuntimeError raised directly by create_database/reindex_database."""
        if self.status != "exc" or not self.exc:
            return False
        # a deliberate refusal is a RuntimeError or an exception class of zorg's own;
        # built-in error classes other than RuntimeError are internal failures
        if self.exc["type"] != "RuntimeError" and not str(self.exc.get("module", "")).startswith("zorg"):
            return False
        # structural, not textual: the error comes out of the handlers module while
        # create_database / reindex_database is running (rewording the message or moving
        # the raise into a helper of that module does not change the classification)
        where = self.exc["where"]
        return (
            bool(where)
            and where[-1][0].endswith("service/handlers.py")
            and any(w[1] in ("create_database", "reindex_database") for w in where)
        )


def _exc_info(e: BaseException) -> dict:
    where = []
    for fs in traceback.extract_tb(e.__traceback__):
        fn = fs.filename
        if "/zorg/" in fn:
            where.append([fn.split("/zorg/", 1)[1], fs.name])
    return {"type": type(e).__name__, "module": type(e).__module__, "msg": str(e)[:300], "where": where}


###############################################################################
# the simulated machine
###############################################################################

HANG_BUDGET = float(os.environ.get("ZSIM_HANG_BUDGET", "120"))


class Sim:
    """One world + the ability to run zorg processes in it."""

    def __init__(
        self,
        root: str,
        *,
        seed: int = 0,
        day: int = EPOCH_DAY,
        dirent: str = "sorted",
        cfg: Optional[dict] = None,
        home: str = "org",
    ) -> None:
        self.root = root
        # where the notes directory lives is an input too (~/org, ~/.local/share/zorg, ...)
        self.home = home
        self.zdir = os.path.join(root, home)
        self.seed = seed
        self.day = day
        self.dirent = dirent
        self.cfg = cfg or {}
        self.nproc = 0
        os.makedirs(self.zdir, exist_ok=True)

    # ------------------------------------------------------------------ paths
    @property
    def db_path(self) -> str:
        return os.path.join(self.zdir, ".zorg", "zorg.db")

    @property
    def db_url(self) -> str:
        return "sqlite:///" + self.db_path

    def clone(self, new_root: str) -> "Sim":
        if os.path.exists(new_root):
            shutil.rmtree(new_root)
        os.makedirs(new_root)
        shutil.copytree(self.zdir, os.path.join(new_root, self.home), symlinks=True)
        s = Sim(new_root, seed=self.seed, day=self.day, dirent=self.dirent, cfg=self.cfg, home=self.home)
        s.nproc = self.nproc
        return s

    def destroy(self) -> None:
        shutil.rmtree(self.root, ignore_errors=True)

    # ---------------------------------------------------------------- running
    def run(self, op: dict, fault: Optional[dict] = None, budget: float = HANG_BUDGET) -> Outcome:
        """Run one zorg process (a real forked child) to its end."""
        init_worker()
        self.nproc += 1
        out = Outcome()
        fx_path = os.path.join(self.root, f"fx.{self.nproc}.log")
        out_path = os.path.join(self.root, f"out.{self.nproc}.txt")
        out.out_path = out_path
        fx_fd = os.open(fx_path, os.O_WRONLY | os.O_CREAT | os.O_TRUNC | os.O_APPEND, 0o644)
        r_fd, w_fd = os.pipe()
        sys.stdout.flush()
        sys.stderr.flush()
        t0 = time.monotonic()
        pid = os.fork()
        if pid == 0:  # ------------------------------------------------ child
            try:
                os.close(r_fd)
                self._child(op, fault, fx_fd, w_fd, out_path)
            except BaseException:  # pragma: no cover - harness failure
                try:
                    os.write(2, traceback.format_exc().encode())
                finally:
                    os._exit(99)
            os._exit(0)
        # ----------------------------------------------------------- parent
        os.close(w_fd)
        os.close(fx_fd)
        chunks = []
        deadline = t0 + budget
        hung = False
        while True:
            left = deadline - time.monotonic()
            if left <= 0:
                hung = True
                break
            ready, _, _ = select.select([r_fd], [], [], min(left, 5.0))
            if ready:
                b = os.read(r_fd, 1 << 16)
                if not b:
                    break
                chunks.append(b)
        os.close(r_fd)
        if hung:
            try:
                os.kill(pid, signal.SIGKILL)
            except ProcessLookupError:
                pass
        _, status = os.waitpid(pid, 0)
        out.wall = time.monotonic() - t0
        out.effects = _read_effects(fx_path)
        code = os.waitstatus_to_exitcode(status)
        if hung:
            out.status = "hang"
        elif code == CRASH_EXIT:
            out.status = "crash"
        elif code == 0 and chunks:
            res = json.loads(b"".join(chunks))
            out.status = res["status"]
            out.ret = res.get("ret")
            out.exc = res.get("exc")
            out.clock_reads = res.get("clock_reads", 0)
        else:
            out.status = "died"
            out.exc = {"type": f"exit{code}", "msg": _tail(out_path), "where": []}
        return out

    def _child(self, op: dict, fault: Optional[dict], fx_fd: int, w_fd: int, out_path: str) -> None:
        # silence: fds 1/2 go to a capture file that is not part of any digest
        cap = os.open(out_path, os.O_WRONLY | os.O_CREAT | os.O_TRUNC, 0o644)
        os.dup2(cap, 1)
        os.dup2(cap, 2)
        os.close(cap)
        os.chdir(self.root)
        os.environ["HOME"] = self.root
        set_day(self.day)
        CLOCK.reads = 0
        CLOCK.tick_after = fault["after"] if fault and fault.get("kind") == "midnight-tick" else None
        random.seed(self.seed)
        # the process id is a source of nondeterminism too (e.g. in temp-file names):
        # every simulated process gets a pid derived from its position in the history
        fake_pid = 30000 + self.nproc
        os.getpid = lambda: fake_pid  # type: ignore[assignment]
        _install_dirent_order(self.dirent, self.seed)
        # zorg keeps one class-level TemporaryDirectory per interpreter for template
        # builds; forked children would all share the parent's, so each simulated
        # process gets its own (as every real zorg process does)
        try:
            import types as _types

            import zorg.service.templates as _tm

            tdir = os.path.join(self.root, f"tmpl-tmp.{self.nproc}")
            os.makedirs(tdir, exist_ok=True)
            _tm.ZorgTemplateManager.tmp_dir = _types.SimpleNamespace(name=tdir)  # type: ignore[assignment]
        except ImportError:
            pass
        tap = Tap(self.zdir, fx_fd, fault if fault and fault.get("kind") != "midnight-tick" else None)
        _install_tap(tap)
        from . import ops

        try:
            ret = ops.dispatch(self, op)
            res = {"status": "ok", "ret": ret}
        except Exception as e:  # zorg raised
            res = {"status": "exc", "exc": _exc_info(e)}
        except SystemExit as e:
            res = {"status": "exc", "exc": {"type": "SystemExit", "msg": str(e.code), "where": []}}
        res["clock_reads"] = CLOCK.reads
        sys.stdout.flush()
        sys.stderr.flush()
        data = json.dumps(res).encode()
        while data:
            n = os.write(w_fd, data)
            data = data[n:]
        os.close(w_fd)


def _read_effects(path: str) -> list[dict]:
    out = []
    try:
        with _real_open(path, "rb") as f:
            for line in f:
                line = line.strip()
                if line:
                    out.append(json.loads(line))
    except FileNotFoundError:
        pass
    return out


def _tail(path: str, n: int = 600) -> str:
    try:
        with _real_open(path, "rb") as f:
            return f.read()[-n:].decode("utf-8", "replace")
    except OSError:
        return ""


###############################################################################
# scratch space
###############################################################################


def scratch_base() -> str:
    base = os.environ.get("ZSIM_SCRATCH")
    if not base:
        base = "/dev/shm" if os.path.isdir("/dev/shm") and os.access("/dev/shm", os.W_OK) else None
        if base is None:
            import tempfile

            base = tempfile.gettempdir()
    path = os.path.join(base, f"zorg-verif.{os.getpid()}")
    os.makedirs(path, exist_ok=True)
    return path
