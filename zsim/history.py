"""Helpers shared by the property modules: worlds on disk, step execution, recording."""

from __future__ import annotations

import hashlib
import os
from typing import Any, Optional

from . import core, observers as ob, user


def materialize(scratch: str, case: dict, name: str = "w") -> core.Sim:
    world = case["world"]
    sim = core.Sim(
        os.path.join(scratch, name),
        seed=int(case.get("run_seed", 0)) & 0x7FFFFFFF,
        day=int(case.get("day0", core.EPOCH_DAY)),
        dirent=world.get("dirent", "sorted"),
        cfg=case.get("cfg") or {},
        home=world.get("home", "org"),
    )
    for rel, text in sorted(world["files"].items()):
        user._write(os.path.join(sim.zdir, rel), text)
    for rel, text in sorted((world.get("stores") or {}).items()):
        user._write(os.path.join(sim.zdir, ".zorg", rel), text)
    return sim


def state_digest(sim: core.Sim) -> str:
    h = hashlib.sha256()
    for rel, data in sorted(ob.read_all_files(sim.zdir).items()):
        h.update(rel.encode())
        h.update(b"\0")
        h.update(data)
        h.update(b"\0")
    h.update(ob.canon_digest(ob.canon_index(sim.db_path)).encode())
    for store in ("file_hash.json", "next_ids.json", "error_file_whitelist.txt"):
        p = os.path.join(sim.zdir, ".zorg", store)
        if os.path.exists(p):
            with core._real_open(p, "rb") as f:
                h.update(f.read())
    return h.hexdigest()[:16]


class Rec:
    """Append-only event log of a run; its hash is the run's digest."""

    def __init__(self) -> None:
        self.events: list[Any] = []
        self.probes: dict[str, int] = {}
        self.stats: dict[str, float] = {"processes": 0, "effects": 0, "days": 0}
        self.states: list[str] = []
        self.softs: list[dict] = []
        self.nontrivial: list[str] = []  # optional: digests of the distinct non-trivial cases of this run

    def probe(self, name: str, n: int = 1) -> None:
        if n:
            self.probes[name] = self.probes.get(name, 0) + n

    def stat(self, name: str, n: float = 1) -> None:
        self.stats[name] = self.stats.get(name, 0) + n

    def proc(self, op: dict, fault: Optional[dict], outcome: core.Outcome, sim: Optional[core.Sim] = None) -> None:
        self.stats["processes"] += 1
        self.stats["effects"] += len(outcome.effects)
        ev: dict[str, Any] = {"op": op, "fault": fault, "outcome": outcome.brief()}
        if sim is not None:
            d = state_digest(sim)
            ev["state"] = d
            self.states.append(d)
        self.events.append(ev)
        if fault and outcome.status == "crash":
            self.probe("fault:" + fault["kind"])

    def note(self, what: str, **kw: Any) -> None:
        self.events.append({"note": what, **kw})

    def soft(self, violation: dict) -> None:
        """Record a violation and keep going (used for deviations that the run can
        model and continue past, so that one defect does not hide the rest)."""
        sig = (violation["clause"], violation.get("cause"))
        if sig not in {(v["clause"], v.get("cause")) for v in self.softs}:
            self.softs.append(violation)

    def result(self, violation: Optional[dict] = None, harness_error: Optional[str] = None) -> dict:
        vs = ([violation] if violation else []) + self.softs
        return {
            "violation": vs[0] if vs else None,
            "violations": vs,
            "events": self.events,
            "probes": self.probes,
            "stats": self.stats,
            "states": self.states,
            "nontrivial": self.nontrivial,
            "harness_error": harness_error,
        }


def viol(clause: str, cause: str = "-", **detail: Any) -> dict:
    return {"clause": clause, "cause": cause, "detail": detail}
