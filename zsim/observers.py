"""Read-only observers of a world: the only place where zorg state is interpreted.

canon_index  -- raw sqlite3 dump of the index (zorg's ORM is not used).
canon_files  -- the same shape obtained by compiling every *.zo with the real
                compiler under the simulated date.
Both return  {"notes": {(page, line): note-dict}, "pages": {page: {...}}}.
"""

from __future__ import annotations

import hashlib
import json
import os
import re
import sqlite3
from pathlib import Path
from typing import Any, Optional

from . import core

_TAGS = ("area", "context", "person", "project", "link")
_TAG_KEY = {
    "area": "areas",
    "context": "contexts",
    "person": "people",
    "project": "projects",
    "link": "links",
}


def list_pages(zdir: str, suffixes: tuple = (".zo",)) -> list[str]:
    out = []
    for dirpath, dirnames, filenames in os.walk(zdir):
        dirnames.sort()
        for fn in sorted(filenames):
            if fn.endswith(suffixes):
                out.append(os.path.relpath(os.path.join(dirpath, fn), zdir))
    return sorted(out)


def read_files(zdir: str, suffixes: tuple = (".zo", ".zot", ".zoq")) -> dict[str, bytes]:
    out = {}
    for rel in list_pages(zdir, suffixes):
        with core._real_open(os.path.join(zdir, rel), "rb") as f:
            out[rel] = f.read()
    return out


def read_all_files(zdir: str) -> dict[str, bytes]:
    """Every regular file outside .zorg."""
    out = {}
    for dirpath, dirnames, filenames in os.walk(zdir):
        dirnames[:] = sorted(d for d in dirnames if d != ".zorg")
        for fn in sorted(filenames):
            p = os.path.join(dirpath, fn)
            with core._real_open(p, "rb") as f:
                out[os.path.relpath(p, zdir)] = f.read()
    return out


###############################################################################
# index
###############################################################################


def canon_index(db_path: str) -> Optional[dict]:
    if not os.path.exists(db_path):
        return None
    con = sqlite3.connect(f"file:{db_path}?mode=ro", uri=True)
    try:
        return _canon_index(con)
    finally:
        con.close()


def _canon_index(con: sqlite3.Connection) -> dict:
    cur = con.cursor()

    def rows(sql: str) -> list:
        return cur.execute(sql).fetchall()

    pages = {pid: (path, bool(err)) for pid, path, err in rows("select id, path, has_errors from page")}
    h1 = {i: (t, p) for i, t, p in rows("select id, title, page_id from h1")}
    h2 = {i: (t, p) for i, t, p in rows("select id, title, h1_id from h2")}
    h3 = {i: (t, p) for i, t, p in rows("select id, title, h2_id from h3")}
    h4 = {i: (t, p) for i, t, p in rows("select id, title, h3_id from h4")}

    # ordinal of every section among its siblings (insertion order = id order)
    def ordinals(tbl: dict) -> dict:
        by_parent: dict[Any, list] = {}
        for i in sorted(tbl):
            by_parent.setdefault(tbl[i][1], []).append(i)
        return {i: n for sibs in by_parent.values() for n, i in enumerate(sibs)}

    o1, o2, o3, o4 = ordinals(h1), ordinals(h2), ordinals(h3), ordinals(h4)

    def sec_path(level: int, sid: int) -> tuple:
        """-> (page_id, ((ordinal, title), ...))"""
        if level == 1:
            t, pid = h1[sid]
            return pid, ((o1[sid], t),)
        if level == 2:
            t, parent = h2[sid]
            pid, up = sec_path(1, parent)
            return pid, up + ((o2[sid], t),)
        if level == 3:
            t, parent = h3[sid]
            pid, up = sec_path(2, parent)
            return pid, up + ((o3[sid], t),)
        t, parent = h4[sid]
        pid, up = sec_path(3, parent)
        return pid, up + ((o4[sid], t),)

    audit: list[str] = []
    blocks = {}
    for bid, a, b, c, d in rows("select id, h1_id, h2_id, h3_id, h4_id from block"):
        try:
            if d is not None:
                blocks[bid] = sec_path(4, d)
            elif c is not None:
                blocks[bid] = sec_path(3, c)
            elif b is not None:
                blocks[bid] = sec_path(2, b)
            elif a is not None:
                blocks[bid] = sec_path(1, a)
            else:
                audit.append(f"block {bid} without section")
        except KeyError:
            audit.append(f"block {bid} refers to a missing section")

    tags: dict[str, dict[int, list[str]]] = {}
    for t in _TAGS:
        names = dict(rows(f"select id, name from {t}"))
        m: dict[int, list[str]] = {}
        for nid, tid in rows(f"select note_id, {t}_id from {t}link"):
            if tid in names:
                m.setdefault(nid, []).append(names[tid])
            else:
                audit.append(f"{t}link of note {nid} to missing {t} {tid}")
        tags[t] = m
    pnames = dict(rows("select id, name from property"))
    props: dict[int, dict[str, str]] = {}
    for nid, pid, val in rows("select note_id, prop_id, value from propertylink"):
        if pid in pnames:
            props.setdefault(nid, {})[pnames[pid]] = val
        else:
            audit.append(f"propertylink of note {nid} to missing property {pid}")

    notes: dict[tuple, dict] = {}
    dup: list[tuple] = []
    block_min: dict[int, int] = {}
    note_rows = rows(
        "select id, body, line_no, zid, create_date, modify_date, todo_priority,"
        " todo_status, block_id, page_path from note"
    )
    note_ids = {r[0] for r in note_rows}
    for nid, body, line, zid, cd, md, prio, st, bid, ppath in note_rows:
        if bid is not None:
            block_min[bid] = min(block_min.get(bid, line), line)
    for nid, body, line, zid, cd, md, prio, st, bid, ppath in note_rows:
        sec: Any = None
        page_of_block = None
        if bid in blocks:
            pid, sec = blocks[bid]
            page_of_block = pages.get(pid, (None, None))[0]
            if page_of_block is None:
                audit.append(f"note {nid} hangs off a missing page row")
        else:
            audit.append(f"note {nid} without block")
        n = {
            "page": ppath,
            "line": line,
            "zid": zid,
            "body": body,
            "create": str(cd)[:10] if cd is not None else None,
            "modify": str(md)[:10] if md is not None else None,
            "status": st,
            "priority": prio,
            "section": _sec(sec),
            "block": block_min.get(bid),
            "props": dict(sorted(props.get(nid, {}).items())),
            "page_of_block": page_of_block,
        }
        for t in _TAGS:
            n[_TAG_KEY[t]] = sorted(set(tags[t].get(nid, [])))
        key = (ppath, line)
        if key in notes:
            dup.append(key)
        notes[key] = n
    for t in _TAGS:
        for nid in tags[t]:
            if nid not in note_ids:
                audit.append(f"{t}link row for missing note {nid}")
    page_info: dict[str, dict] = {}
    dup_pages = []
    for pid, (path, err) in pages.items():
        if path in page_info:
            dup_pages.append(path)
        page_info[path] = {"has_errors": err}
    return {
        "notes": notes,
        "pages": page_info,
        "dup_notes": sorted(dup),
        "dup_pages": sorted(dup_pages),
        "audit": sorted(set(audit)),
    }


def _sec(sec: Any) -> Any:
    """Section path = titles from H1 (or the untitled H0) down.  Row ids carry
    no order in zorg's schema (no position column), so sibling ordinals are not
    part of the canonical form; blocks are told apart by their first line."""
    if sec is None:
        return None
    return [t for o, t in sec]


###############################################################################
# files
###############################################################################


def compile_page(zdir: str, rel: str) -> Any:
    core.init_worker()
    from zorg.service.compiler import walk_zorg_page

    return walk_zorg_page(Path(zdir), Path(rel))


def canon_files(zdir: str, day: int, pages: Optional[list[str]] = None) -> dict:
    """Compile every page under the simulated date `day` (observer; in-worker)."""
    core.init_worker()
    saved = core.CLOCK.ordinal
    core.set_day(day)
    try:
        notes: dict[tuple, dict] = {}
        page_info: dict[str, dict] = {}
        for rel in pages if pages is not None else list_pages(zdir):
            page = compile_page(zdir, rel)
            page_info[rel] = {"has_errors": bool(page.has_errors)}
            for n in _page_notes(page, rel):
                notes[(rel, n["line"])] = n
        return {"notes": notes, "pages": page_info}
    finally:
        core.set_day(saved)


def _page_notes(page: Any, rel: str) -> list[dict]:
    out = []
    h1s = list(page.h1s)
    if page.h0:
        h1s = [page.h0] + h1s

    def emit(sec_path: tuple, blocks: list) -> None:
        for block in blocks:
            if not block.notes:
                continue
            bmin = min(n.line_no for n in block.notes)
            for n in block.notes:
                tp = n.todo_payload
                out.append(
                    {
                        "page": rel,
                        "line": n.line_no,
                        "zid": n.zid,
                        "body": n.body,
                        "create": str(n.create_date)[:10],
                        "modify": str(n.modify_date)[:10],
                        "status": tp.status.name if tp else None,
                        "priority": tp.priority if tp else None,
                        "section": [t for o, t in sec_path],
                        "block": bmin,
                        "props": dict(sorted((k, str(v)) for k, v in n.properties.items())),
                        "areas": sorted(set(n.areas)),
                        "contexts": sorted(set(n.contexts)),
                        "people": sorted(set(n.people)),
                        "projects": sorted(set(n.projects)),
                        "links": sorted(set(n.links)),
                        "page_of_block": rel,
                    }
                )

    for i1, s1 in enumerate(h1s):
        p1 = ((i1, s1.title),)
        emit(p1, s1.blocks)
        for i2, s2 in enumerate(s1.h2s):
            p2 = p1 + ((i2, s2.title),)
            emit(p2, s2.blocks)
            for i3, s3 in enumerate(s2.h3s):
                p3 = p2 + ((i3, s3.title),)
                emit(p3, s3.blocks)
                for i4, s4 in enumerate(s3.h4s):
                    emit(p3 + ((i4, s4.title),), s4.blocks)
    return out


###############################################################################
# comparison helpers
###############################################################################

NOTE_FIELDS = (
    "zid",
    "body",
    "create",
    "modify",
    "status",
    "priority",
    "section",
    "block",
    "props",
    "areas",
    "contexts",
    "people",
    "projects",
    "links",
    "page_of_block",
)


def diff_canon(index: dict, files: dict, fields: tuple = NOTE_FIELDS) -> list[dict]:
    """Field-level differences between two canonical forms (index vs files)."""
    out = []
    ikeys, fkeys = set(index["notes"]), set(files["notes"])
    for key in sorted(ikeys - fkeys):
        out.append({"kind": "only-in-index", "key": list(key), "note": index["notes"][key]})
    for key in sorted(fkeys - ikeys):
        out.append({"kind": "only-in-files", "key": list(key), "note": files["notes"][key]})
    for key in sorted(ikeys & fkeys):
        a, b = index["notes"][key], files["notes"][key]
        for f in fields:
            if a.get(f) != b.get(f):
                out.append(
                    {"kind": "field", "key": list(key), "field": f, "index": a.get(f), "files": b.get(f)}
                )
    return out


def canon_digest(*canons: Any) -> str:
    def enc(c: Any) -> Any:
        if c is None:
            return None
        if isinstance(c, dict) and "notes" in c and isinstance(c["notes"], dict):
            c = dict(c)
            c["notes"] = [[list(k), v] for k, v in sorted(c["notes"].items())]
        return c

    blob = json.dumps([enc(c) for c in canons], sort_keys=True, default=repr)
    return hashlib.sha256(blob.encode()).hexdigest()[:16]


###############################################################################
# text-level helpers
###############################################################################

_ITEM_RE = re.compile(r"^([-ox~<>]) ")
_ZID_RE = re.compile(r"^\d{6}#[0-9A-Za-z]{2,3}$")
_SHORT_RE = re.compile(r"^\d{6}$")
_LONG_RE = re.compile(r"^\d{4}-\d{2}-\d{2}$")
_PRIO_RE = re.compile(r"^P\d$")


def split_item_line(line: str) -> Optional[dict]:
    """Split the first line of an item into prefix parts and the rest.

    Returns None for lines that are not item first lines.  Independent of
    zorg's own line surgery (handlers._pop_line_before_zid).
    """
    line = line.rstrip("\r")
    m = _ITEM_RE.match(line)
    if not m:
        return None
    kind = m.group(1)
    rest = line[2:]
    words = rest.split(" ")
    i = 0
    prio = stamp = zid = longdate = None
    # leading empty words = extra spaces; keep track of them
    def skip_blank(i: int) -> int:
        while i < len(words) and words[i] == "":
            i += 1
        return i

    j = skip_blank(i)
    if kind != "-" and j < len(words) and _PRIO_RE.match(words[j]):
        prio = words[j]
        j = skip_blank(j + 1)
    k = j
    if k < len(words) and _SHORT_RE.match(words[k]):
        k2 = skip_blank(k + 1)
        if k2 < len(words) and _ZID_RE.match(words[k2]):
            stamp = words[k]
            zid = words[k2]
            k = k2 + 1
        else:
            # a 6-digit first word without a ZID behind it
            stamp = None
    if zid is None and j < len(words) and _ZID_RE.match(words[j]):
        zid = words[j]
        k = j + 1
    if zid is None:
        k = j
        if k < len(words) and _LONG_RE.match(words[k]):
            longdate = words[k]
            k += 1
    body_words = [w for w in words[k:]]
    return {
        "kind": kind,
        "priority": prio,
        "stamp": stamp,
        "zid": zid,
        "longdate": longdate,
        "rest": " ".join(body_words),
    }


def user_text(text: str) -> list[str]:
    """Page text with the tokens zorg may insert removed from item first lines.

    Used for "no user text lost": the result must be equal before and after.
    Whitespace between the prefix and the body is normalised.
    """
    out = []
    for line in text.split("\n"):
        parts = split_item_line(line)
        if parts is None:
            out.append(line)
            continue
        prio = f" {parts['priority']}" if parts["priority"] else ""
        out.append(f"{parts['kind']}{prio} {parts['rest'].strip()}")
    return out
