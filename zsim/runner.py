"""Seeded search driver: runs cases in parallel, classifies, minimises, replays.

Exit codes: 0 held (possibly with KNOWN-FINDING lines); 1 at least one
unlisted violation (VIOLATION line each); 2 harness error (HARNESS-ERROR).
"""

from __future__ import annotations

import concurrent.futures as cf
import copy
import hashlib
import importlib
import json
import multiprocessing
import os
import random
import shutil
import subprocess
import sys
import time
import traceback
from typing import Any, Callable, Iterator, Optional

from . import core

VERIF_DIR = os.path.dirname(os.path.dirname(os.path.abspath(__file__)))
DEFAULT_SEED = 20260926
PROPS = ["C05", "C06", "C07", "C08", "C10", "C11", "C13", "C14", "C16"]


class HarnessError(Exception):
    pass


def load_prop(pid: str) -> Any:
    return importlib.import_module(f"zsim.props.{pid.lower()}")


def run_seed(verif_seed: int, pid: str, idx: int) -> int:
    h = hashlib.sha256(f"{verif_seed}:{pid}:{idx}".encode()).digest()
    return int.from_bytes(h[:8], "big")


def digest_of(events: Any) -> str:
    return hashlib.sha256(json.dumps(events, sort_keys=True, default=repr).encode()).hexdigest()[:20]


def signature(pid: str, v: dict) -> str:
    return f"{pid}:{v['clause']}:{v.get('cause', '-')}"


###############################################################################
# scratch handling
###############################################################################

_SCRATCH_PARENT_ENV = "ZSIM_SCRATCH_PARENT"


def main_scratch() -> str:
    p = os.environ.get(_SCRATCH_PARENT_ENV)
    if not p:
        base = os.environ.get("ZSIM_SCRATCH")
        if not base:
            base = "/dev/shm" if os.path.isdir("/dev/shm") and os.access("/dev/shm", os.W_OK) else None
        if not base:
            import tempfile

            base = tempfile.gettempdir()
        p = os.path.join(base, f"zorg-verif.{os.getpid()}")
        os.environ[_SCRATCH_PARENT_ENV] = p
    os.makedirs(p, exist_ok=True)
    return p


def worker_scratch() -> str:
    p = os.path.join(main_scratch(), f"w{os.getpid()}")
    os.makedirs(p, exist_ok=True)
    return p


def fresh_dir(name: str) -> str:
    p = os.path.join(worker_scratch(), name)
    shutil.rmtree(p, ignore_errors=True)
    os.makedirs(p)
    return p


###############################################################################
# one run
###############################################################################


def execute_case(pid: str, case: dict) -> dict:
    """Execute an explicit case in a fresh scratch directory."""
    prop = load_prop(pid)
    scratch = fresh_dir("run")
    t0 = time.monotonic()
    try:
        res = prop.execute(case, scratch)
    finally:
        shutil.rmtree(scratch, ignore_errors=True)
    res["wall"] = time.monotonic() - t0
    res["digest"] = digest_of(res.get("events", []))
    return res


def _task(args: tuple) -> dict:
    pid, idx, verif_seed, tier, keep_case = args
    core.init_worker()
    prop = load_prop(pid)
    seed = run_seed(verif_seed, pid, idx)
    rng = random.Random(seed)
    try:
        if hasattr(prop, "gen_case_idx"):
            case = prop.gen_case_idx(idx, rng, tier)
        else:
            case = prop.gen_case(rng, tier)
        case["run_seed"] = seed
        res = execute_case(pid, case)
    except Exception:
        return {"idx": idx, "seed": seed, "harness_error": traceback.format_exc()}
    out = {
        "idx": idx,
        "seed": seed,
        "digest": res["digest"],
        "violation": res.get("violation"),
        "violations": res.get("violations") or ([res["violation"]] if res.get("violation") else []),
        "probes": res.get("probes", {}),
        "stats": res.get("stats", {}),
        "states": res.get("states", []),
        "nontrivial": res.get("nontrivial", []),
        "wall": res["wall"],
        "harness_error": res.get("harness_error"),
    }
    if out["violations"] or keep_case:
        out["case"] = case
    if keep_case:
        out["events"] = res.get("events")
    return out


###############################################################################
# minimisation (delta debugging over explicit cases)
###############################################################################


def generic_reductions(case: dict) -> Iterator[dict]:
    """Candidates smaller than `case`: fewer steps, files, lines, words."""
    steps = case.get("steps")
    if steps:
        n = len(steps)
        chunk = n // 2
        while chunk >= 1:
            for i in range(0, n, chunk):
                c = copy.deepcopy(case)
                del c["steps"][i : i + chunk]
                yield c
            chunk //= 2
        # inside user steps: drop individual edits
        for i, st in enumerate(steps):
            for key in ("edits",):
                if isinstance(st.get(key), list) and len(st[key]) > 1:
                    for j in range(len(st[key])):
                        c = copy.deepcopy(case)
                        del c["steps"][i][key][j]
                        yield c
            if st.get("op") == "day" and st.get("days", 0) > 1:
                c = copy.deepcopy(case)
                c["steps"][i]["days"] = 1
                yield c
    world = case.get("world")
    if world and isinstance(world.get("files"), dict):
        files = world["files"]
        if len(files) > 1:
            for rel in sorted(files):
                c = copy.deepcopy(case)
                del c["world"]["files"][rel]
                yield c
        for rel in sorted(files):
            lines = files[rel].split("\n")
            n = len(lines)
            chunk = max(1, n // 2)
            while chunk >= 1:
                for i in range(1, n, chunk):  # keep the title line
                    c = copy.deepcopy(case)
                    nl = lines[:i] + lines[i + chunk :]
                    c["world"]["files"][rel] = "\n".join(nl)
                    yield c
                if chunk == 1:
                    break
                chunk //= 2
        for rel in sorted(files):
            lines = files[rel].split("\n")
            for i, ln in enumerate(lines):
                words = ln.split(" ")
                if len(words) > 3:
                    for j in range(2, len(words)):
                        c = copy.deepcopy(case)
                        nl = list(lines)
                        nl[i] = " ".join(words[:j] + words[j + 1 :])
                        c["world"]["files"][rel] = "\n".join(nl)
                        yield c
        if world.get("dirent") not in (None, "sorted"):
            c = copy.deepcopy(case)
            c["world"]["dirent"] = "sorted"
            yield c


def _all_violations(res: dict) -> list[dict]:
    return res.get("violations") or ([res["violation"]] if res.get("violation") else [])


def _sigs(pid: str, res: dict) -> list[str]:
    return [signature(pid, v) for v in _all_violations(res)]


def minimise(pid: str, case: dict, sig: str, budget_s: float = 90.0, max_evals: int = 400) -> tuple[dict, int]:
    prop = load_prop(pid)
    reductions = getattr(prop, "reductions", None) or generic_reductions
    deadline = time.monotonic() + budget_s
    evals = 0
    progress = True
    while progress and time.monotonic() < deadline and evals < max_evals:
        progress = False
        for cand in reductions(case):
            if time.monotonic() > deadline or evals >= max_evals:
                break
            evals += 1
            try:
                res = execute_case(pid, cand)
            except Exception:
                continue
            if sig in _sigs(pid, res):
                case = cand
                progress = True
                break
    return case, evals


###############################################################################
# known findings
###############################################################################


def load_findings() -> list[dict]:
    path = os.path.join(VERIF_DIR, "known_findings.json")
    if not os.path.exists(path):
        return []
    with open(path) as f:
        return json.load(f).get("findings", [])


def known_for(pid: str) -> dict[str, dict]:
    return {
        f["signature"]: f
        for f in load_findings()
        if f.get("property") == pid and f.get("status", "known") == "known"
    }


###############################################################################
# replay
###############################################################################


def replay(pid: str, path: str) -> int:
    core.init_worker()
    with open(path) as f:
        rep = json.load(f)
    res = execute_case(pid, rep["case"])
    vs = _all_violations(res)
    if not vs:
        print(f"replay: no violation (expected {rep.get('expected_signature')})")
        return 0
    same_digest = res["digest"] == rep.get("digest")
    code = 0
    known = known_for(pid)
    for v in vs:
        sig = signature(pid, v)
        print(f"replay: signature={sig} digest={res['digest']} same_digest={same_digest}")
        print(json.dumps(v, indent=1, default=repr)[:4000])
        if sig in known:
            print(f"KNOWN-FINDING: property={pid} {known[sig]['what_fails']}")
        else:
            print(f"VIOLATION property={pid} replay={path}")
            code = 1
    return code


def replay_in_fresh_process(pid: str, path: str) -> tuple[bool, str]:
    """True iff a fresh interpreter reproduces the recorded signature+digest."""
    env = dict(os.environ)
    env.pop(_SCRATCH_PARENT_ENV, None)
    env["PYTHONHASHSEED"] = "0"
    p = subprocess.run(
        [sys.executable, os.path.join(VERIF_DIR, "check"), pid, "--replay", path],
        capture_output=True,
        text=True,
        env=env,
        timeout=600,
    )
    with open(path) as f:
        rep = json.load(f)
    ok = f"signature={rep['expected_signature']} " in p.stdout and "same_digest=True" in p.stdout
    return ok, p.stdout[-2000:] + p.stderr[-2000:]


###############################################################################
# the check
###############################################################################


def run_check(pid: str, tier: str, verif_seed: int, *, runs: Optional[int] = None, workers: Optional[int] = None, selftest: bool = True, survey: bool = False) -> int:
    t0 = time.monotonic()
    prop = load_prop(pid)
    n_runs = runs if runs is not None else prop.RUNS[tier]
    workers = workers or int(os.environ.get("ZSIM_WORKERS", "0")) or min(16, os.cpu_count() or 4)
    wall_cap = float(os.environ.get("ZSIM_WALL_CAP", prop.WALL_CAP[tier] if hasattr(prop, "WALL_CAP") else (300 if tier == "quick" else 3600)))
    print(f"zsim check property={pid} tier={tier} VERIF_SEED={verif_seed} runs={n_runs} workers={workers}")
    scratch = main_scratch()
    results: list[dict] = []
    truncated = False
    harness_errors: list[str] = []
    try:
        core.init_worker()
        extra = getattr(prop, "prepare", None)
        if extra:
            extra(tier)
        ctx = multiprocessing.get_context("fork")
        with cf.ProcessPoolExecutor(max_workers=workers, mp_context=ctx, initializer=core.init_worker) as pool:
            sample_idx = set(range(min(3, n_runs)))
            futs = {}
            it = iter(range(n_runs))
            pending: set = set()

            def submit_more() -> None:
                while len(pending) < workers * 3:
                    try:
                        i = next(it)
                    except StopIteration:
                        return
                    f = pool.submit(_task, (pid, i, verif_seed, tier, i in sample_idx))
                    futs[f] = i
                    pending.add(f)

            submit_more()
            while pending:
                done, _ = cf.wait(pending, timeout=30, return_when=cf.FIRST_COMPLETED)
                for f in done:
                    pending.discard(f)
                    try:
                        results.append(f.result())
                    except Exception as e:  # worker died
                        harness_errors.append(f"run {futs[f]}: {type(e).__name__}: {e}")
                if time.monotonic() - t0 > wall_cap:
                    truncated = True
                    for f in pending:
                        f.cancel()
                    # wait for the ones already running
                    running = [f for f in pending if not f.cancelled()]
                    for f in running:
                        try:
                            results.append(f.result(timeout=core.HANG_BUDGET * 3))
                        except Exception as e:
                            harness_errors.append(f"run {futs[f]}: {type(e).__name__}: {e}")
                    pending.clear()
                    break
                submit_more()
        results.sort(key=lambda r: r["idx"])
        fin = getattr(prop, "finalize", None)
        if fin and results:
            # cross-run obligations (e.g. C07: shards must compose into one chain)
            for extra_case in fin(results, tier) or []:
                extra_case["run_seed"] = run_seed(verif_seed, pid, n_runs)
                res = execute_case(pid, extra_case)
                results.append(
                    {
                        "idx": n_runs + sum(1 for r in results if r["idx"] >= n_runs),
                        "seed": extra_case["run_seed"],
                        "digest": res["digest"],
                        "violation": res.get("violation"),
                        "violations": _all_violations(res),
                        "probes": res.get("probes", {}),
                        "stats": res.get("stats", {}),
                        "states": res.get("states", []),
                        "nontrivial": res.get("nontrivial", []),
                        "wall": res["wall"],
                        "harness_error": res.get("harness_error"),
                        "case": extra_case,
                    }
                )
        if os.environ.get("ZSIM_DUMP_DIGESTS"):
            with open(os.environ["ZSIM_DUMP_DIGESTS"], "w") as f:
                for r in results:
                    f.write(f"{r['idx']} {r.get('digest')}\n")
        for r in results:
            if r.get("harness_error"):
                harness_errors.append(f"run {r['idx']} seed {r['seed']}: {r['harness_error']}")

        # ---------------------------------------------------------- self-tests
        st_info: dict[str, Any] = {}
        if selftest and not harness_errors:
            st_info = determinism_selftest(pid, tier, verif_seed, results, n=4 if tier == "quick" else 16)
            if st_info.get("mismatches"):
                harness_errors.append(f"nondeterminism: {st_info['mismatches']}")

        # ------------------------------------------------------- violations
        known = known_for(pid)
        by_sig: dict[str, list[dict]] = {}
        for r in results:
            for v in r.get("violations") or []:
                by_sig.setdefault(signature(pid, v), []).append(dict(r, violation=v))
        exit_code = 0
        n_viol = 0
        known_hits: dict[str, int] = {}
        new_reports = []
        if survey:
            for sig, rs in sorted(by_sig.items(), key=lambda kv: -len(kv[1])):
                tag = "known" if sig in known else "NEW"
                print(f"SURVEY {tag} {len(rs):5d} {sig}  e.g. run {rs[0]['idx']}")
                print("   " + json.dumps(rs[0]["violation"].get("detail"), default=repr)[:700])
            print(f"survey: {len(results)} runs, {sum(len(v) for v in by_sig.values())} failing, wall={time.monotonic() - t0:.1f}s")
            agg: dict[str, int] = {}
            for r in results:
                for k, v in (r.get("probes") or {}).items():
                    agg[k] = agg.get(k, 0) + v
            print("probes:", json.dumps({k: v for k, v in agg.items() if not k.startswith("boundary:")}, sort_keys=True))
            sagg: dict[str, float] = {}
            for r in results:
                for k, v in (r.get("stats") or {}).items():
                    sagg[k] = sagg.get(k, 0) + v
            print("stats:", json.dumps(sagg, sort_keys=True))
            for r in results:
                if r.get("harness_error"):
                    print("HARNESS-ERROR", r["idx"], str(r["harness_error"])[-1500:])
            return 0
        for sig, rs in sorted(by_sig.items()):
            if sig in known:
                known_hits[sig] = len(rs)
                print(f"KNOWN-FINDING: property={pid} {known[sig]['what_fails']} [signature={sig} runs={len(rs)}]")
                continue
            n_viol += len(rs)
            r = rs[0]
            case = r["case"]
            os.makedirs(os.path.join(VERIF_DIR, "replays"), exist_ok=True)
            if os.environ.get("ZSIM_NO_MINIMISE"):
                small, evals = case, 0  # sensitivity sweeps only need the verdict
            else:
                small, evals = minimise(pid, case, sig, budget_s=60 if tier == "quick" else 240)
            res = execute_case(pid, small)
            v = next((x for x in _all_violations(res) if signature(pid, x) == sig), r["violation"])
            path = os.path.join(VERIF_DIR, "replays", f"{pid}-{verif_seed}-{r['idx']}.json")
            with open(path, "w") as f:
                json.dump(
                    {
                        "property": pid,
                        "verif_seed": verif_seed,
                        "run_index": r["idx"],
                        "run_seed": r["seed"],
                        "expected_signature": sig,
                        "digest": res["digest"],
                        "violation": v,
                        "minimise_evals": evals,
                        "case": small,
                    },
                    f,
                    indent=1,
                    default=repr,
                )
            ok, out = replay_in_fresh_process(pid, path)
            if not ok:
                harness_errors.append(f"replay of {path} did not reproduce {sig}: {out[-500:]}")
            print(f"violation signature={sig} runs={len(rs)} first_run={r['idx']} minimise_evals={evals}")
            print(json.dumps(v, indent=1, default=repr)[:3000])
            print(f"VIOLATION property={pid} replay={path}")
            new_reports.append({"signature": sig, "runs": len(rs), "replay": path})
            exit_code = 1

        # ----------------------------------------------------------- evidence
        write_evidence(pid, prop, tier, verif_seed, results, time.monotonic() - t0, n_viol, known_hits, new_reports, st_info, truncated, workers, n_runs)
        if harness_errors:
            for h in harness_errors[:10]:
                print("HARNESS-ERROR " + h.replace("\n", "\n    "))
            return 2
        if not results:
            print("HARNESS-ERROR no run completed")
            return 2
        print(
            f"done property={pid} runs={len(results)}/{n_runs} truncated={truncated} violations={n_viol} "
            f"known_finding_signatures={len(known_hits)} wall={time.monotonic() - t0:.1f}s"
        )
        return exit_code
    finally:
        shutil.rmtree(scratch, ignore_errors=True)


def determinism_selftest(pid: str, tier: str, verif_seed: int, results: list[dict], n: int) -> dict:
    """Re-run a sample of runs in this process and in a fresh interpreter under
    another PYTHONHASHSEED; digests must be identical."""
    if not results:
        return {}
    step = max(1, len(results) // n)
    sample = results[::step][:n]
    mismatches = []
    for r in sample:
        again = _task((pid, r["idx"], verif_seed, tier, False))
        if again.get("digest") != r.get("digest"):
            mismatches.append({"idx": r["idx"], "first": r.get("digest"), "again": again.get("digest")})
    # fresh interpreter, different hash seed, one worker
    idxs = [r["idx"] for r in sample]
    env = dict(os.environ)
    env.pop(_SCRATCH_PARENT_ENV, None)
    env["PYTHONHASHSEED"] = "12345"
    env["ZSIM_NO_REEXEC"] = "1"
    p = subprocess.run(
        [sys.executable, os.path.join(VERIF_DIR, "check"), pid, "--tier", tier, "--digests", ",".join(map(str, idxs)), "--seed", str(verif_seed)],
        capture_output=True,
        text=True,
        env=env,
        timeout=1800,
    )
    fresh = {}
    for line in p.stdout.splitlines():
        if line.startswith("DIGEST "):
            _, i, d = line.split()
            fresh[int(i)] = d
    for r in sample:
        if fresh.get(r["idx"]) != r.get("digest"):
            mismatches.append({"idx": r["idx"], "first": r.get("digest"), "fresh_interpreter": fresh.get(r["idx"]), "stderr": p.stderr[-300:]})
    return {"sampled": len(sample), "mismatches": mismatches}


def print_digests(pid: str, tier: str, verif_seed: int, idxs: list[int]) -> int:
    core.init_worker()
    try:
        for i in idxs:
            r = _task((pid, i, verif_seed, tier, False))
            print(f"DIGEST {i} {r.get('digest')}")
    finally:
        shutil.rmtree(main_scratch(), ignore_errors=True)
    return 0


###############################################################################
# evidence
###############################################################################


def write_evidence(pid: str, prop: Any, tier: str, verif_seed: int, results: list[dict], wall: float, n_viol: int, known_hits: dict, new_reports: list, st_info: dict, truncated: bool, workers: int, n_runs: int) -> None:
    probes: dict[str, int] = {}
    stats: dict[str, float] = {}
    states: set[str] = set()
    nontrivial_states: set[str] = set()
    for r in results:
        for k, v in (r.get("probes") or {}).items():
            probes[k] = probes.get(k, 0) + int(v)
        for k, v in (r.get("stats") or {}).items():
            stats[k] = stats.get(k, 0) + v
        sts = r.get("states") or []
        states.update(sts)
        if r.get("nontrivial"):
            nontrivial_states.update(r["nontrivial"])
        elif any((r.get("probes") or {}).values()) and sts:
            nontrivial_states.add(sts[-1])
    samples = []
    for r in results:
        if "case" in r and len(samples) < 3:
            samples.append(prop.describe(r["case"]) if hasattr(prop, "describe") else r["case"])
    evaluations = int(stats.get("evaluations", len(results))) if getattr(prop, "EVALS_FROM_STATS", False) else len(results)
    cov = {
        "evaluations": max(evaluations, 0),
        "distinct_nontrivial": len(nontrivial_states),
        "rule": prop.RULE,
        "samples": samples,
        "runs_completed": len(results),
        "runs_planned": n_runs,
        "truncated_by_wall_cap": truncated,
        "runs_per_hour": round(len(results) / wall * 3600) if wall > 0 else 0,
        "simulated_processes": int(stats.get("processes", 0)),
        "simulated_days_covered": int(stats.get("days", 0)),
        "effects_tapped": int(stats.get("effects", 0)),
        "distinct_world_states": len(states),
        "fault_kinds_fired": {k[6:]: v for k, v in sorted(probes.items()) if k.startswith("fault:")},
        "reach_probes": {k: v for k, v in sorted(probes.items()) if not k.startswith("fault:")},
        "other_counters": {k: round(v, 3) for k, v in sorted(stats.items())},
        "known_finding_hits": known_hits,
        "new_violation_reports": new_reports,
        "determinism_selftest": st_info,
        "workers": workers,
        "components": prop.COMPONENTS if hasattr(prop, "COMPONENTS") else COMPONENTS_DEFAULT,
    }
    if getattr(prop, "EXHAUSTIVE_KEY", None):
        cov["exhaustive"] = bool(stats.get(prop.EXHAUSTIVE_KEY))
    ev = {
        "property_id": pid,
        "tier": tier,
        "seed": verif_seed,
        "level": prop.LEVEL,
        "coverage": cov,
        "assumptions": list(getattr(prop, "ASSUMPTIONS", [])) + ASSUMPTIONS_DEFAULT,
        "wall_s": round(wall, 2),
        "violations": n_viol,
    }
    # evidence/<id>.json describes runs against /repo only: a run that was pointed at another
    # checkout (ZORG_SRC, used to try seeded changes and mutants) writes next to it instead
    evdir = os.path.join(VERIF_DIR, "evidence", "other-checkout") if os.environ.get("ZORG_SRC") else os.path.join(VERIF_DIR, "evidence")
    os.makedirs(evdir, exist_ok=True)
    tmp = os.path.join(evdir, f".{pid}.json.tmp")
    with open(tmp, "w") as f:
        json.dump(ev, f, indent=1, default=repr)
    os.replace(tmp, os.path.join(evdir, f"{pid}.json"))


COMPONENTS_DEFAULT = {
    "real": [
        "ANTLR lexers/parsers/listeners",
        "walk_zorg_page",
        "messagebus + all handlers",
        "SQLSession/SQLRepo/converters",
        "SQLAlchemy + SQLite on a real file (tmpfs)",
        "ZIDManager",
        "FileManager / note_utils",
        "templates (Jinja2)",
        "runner functions run_db_create/run_db_reindex/run_edit/run_note_move/run_file_rename/run_template_init/run_action_open",
    ],
    "stubbed": [
        "clock (datetime shim bound into every zorg module)",
        "editor (vimala.vim replaced by the simulated user)",
        "clack CLI/config layer (duck-typed config objects)",
        "logging (null logger), tqdm",
    ],
    "trusted_not_simulated": [
        "SQLite atomic commit",
        "tmpfs semantics of single small write()s",
        "Jinja2 rendering",
        "ANTLR runtime",
    ],
}
ASSUMPTIONS_DEFAULT = [
    "one command sees one calendar date (no midnight tick inside a command)",
    "a SQLite commit is atomic and durable",
    "no two zorg processes run concurrently",
    "completed writes are not reordered by power loss",
    "sampling: a clean batch is evidence, not proof",
]
